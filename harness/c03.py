"""C03 Basis functions and knot-span search satisfy their defining identities (bounded tier, Engine B).

Contracts on the real geomdl.helpers / geomdl.knotvector functions; the postconditions are the clauses of the
property statement:

  span search   r = find_span_*(p, U, n, u):  p <= r <= n-1,  U[r] <= u < U[r+1] (u = U[n]: the last non-empty
                interval),  U[r] < U[r+1];  linear == binary search (binary search under its 1e-5 tolerance
                preconditions);  find_spans is the element-wise lift;  find_multiplicity == number of equal knots
  basis         basis_function == span-anchored Cox-de Boor (spec.basis_row), >= 0, sums to 1, == basis_function_one
                for every control-point index (0 outside the support, the two special-cased ends included),
                == basis_function_all column, == basis_function_ders(...)[0], basis_functions is the list lift;
                k-th derivative rows sum to 0, basis_function_ders_one == the column of basis_function_ders
  knot vectors  generate: documented length, end multiplicities, non-decreasing, accepted by check;
                normalize: (U[i]-U[0])/(U[-1]-U[0]), order preserving, onto [0,1];
                check: True for valid vectors, False for wrong length / a decreasing step.

valid_kv (DESIGN.md section 4) is the precondition everywhere: non-decreasing, interior multiplicity <= p,
U[p] < U[n]; clamped (end multiplicity p+1) and unclamped (simple end knots) families, every multiplicity pattern
of the interior knots through shapes.compositions.

Shape families (inside one shape every knot / parameter value is covered, nothing is sampled):
  span search, multiplicity   quick p = 1..4 with <= 2 interior knots (span search, p <= 3: <= 4), thorough p = 1..7 with
                              <= 4 (span search, p <= 3: <= 6); symbolic end knots; u anywhere in the closed domain,
                              x anywhere in [U[0], U[-1]]
  basis functions             quick p = 1..4 clamped (normalised, symbolic interior knots) and p = 1..3 unclamped (every
                              knot symbolic), n = p+1..p+3; thorough adds n = p+4 for p <= 4, p = 5, 6 clamped with <= 2
                              interior symbols and p = 4 unclamped; per span the parameter is pinned on the left knot /
                              strictly inside / on the domain end (three instances instead of forks)
  derivative orders           0..p in basis_ders, p+1 and p+2 in basis_ders_above_degree

Two contracts are refuted by the pinned tree (reported, see known findings): basis_ders_above_degree (IndexError
for order > degree in both derivative functions) and basis_ders_at_end on clamped vectors (basis_function_ders_one
returns 0 instead of 1 for the last basis function at u = U[-1])."""
from fractions import Fraction

from .api import scenario
from . import shapes, spec, assumptions

assumptions.PROPS['C03'] = {'level': 'proof', 'assume': ['A1', 'A2', 'A5', 'A6']}

SPAN_TOL = Fraction(1, 10 ** 5)     # helpers.find_span_binsearch: tol = 10e-6
MULT_TOL = Fraction(1, 10 ** 7)     # helpers.find_multiplicity:   tol = 10e-8


# ------------------------------------------------------------------------------------------------
# helpers local to this module
# ------------------------------------------------------------------------------------------------
def _le(ctx, a, b):
    """a <= b as an obligation condition (division-free in sym mode)"""
    return ctx.sign_free_le(a, b) if ctx.mode == 'sym' else ctx.le(a, b)


def _lt(ctx, a, b):
    return ctx.sign_free_lt(a, b) if ctx.mode == 'sym' else ctx.lt(a, b)


def _distinct(U):
    seen = []
    for k in U:
        if not any(k is s for s in seen):
            seen.append(k)
    return seen


def _patterns(p, kmax):
    for k in range(0, kmax + 1):
        for mult in shapes.compositions(k, p):
            yield list(mult)


def _span_post(ctx, tag, p, U, n, u, r):
    """the span-search postcondition of the property statement"""
    ctx.check_true(tag + '.int_in_range', isinstance(r, int) and p <= r <= n - 1, 'result %r not in [%d, %d]' % (r, p, n - 1))
    ctx.check(tag + '.U[r]<=u', ctx.le(U[r], u))
    ctx.check(tag + '.u<U[r+1]_or_last_at_end', ctx.any(ctx.lt(u, U[r + 1]), ctx.all(ctx.eq(u, U[n]), ctx.eq(U[r + 1], U[n]))))
    ctx.check(tag + '.interval_nonempty', ctx.lt(U[r], U[r + 1]))


def _pin_to_span(ctx, p, U, inner, n, j, where):
    """parameter in the j-th non-empty interval [c_j, c_j+1] of the domain, the case pinned by `where`:
       'knot'  u is the knot c_j itself (the left end of the interval: domain start or an interior knot)
       'open'  symbolic u with c_j < u < c_j+1
       'end'   u is the domain end U[n] (j must be the last interval)
    Pinning instead of forking keeps every path free of an equality u == knot that would have to be substituted
    into polynomial identities."""
    chain = [U[p]] + list(inner) + [U[n]]
    if where == 'knot':
        return chain[j]
    if where == 'end':
        assert j == len(chain) - 2
        return chain[-1]
    u = ctx.num('u')
    ctx.assume(ctx.lt(chain[j], u), ctx.lt(u, chain[j + 1]))
    return u


# ------------------------------------------------------------------------------------------------
# span search
# ------------------------------------------------------------------------------------------------
@scenario('C03', fns=['helpers.basis_function_one', 'helpers.basis_function', 'helpers.basis_function_ders_one',
                      'helpers.find_span_linear', 'helpers.find_span_binsearch', 'knotvector.check'],
          quick=[dict(p=p, e0=e0, e1=e1, ni=ni) for p, ni in ((1, 1), (2, 1), (3, 0), (2, 2)) for e0, e1 in ((1, 0), (0, 1), (1, 1), (2, 1))]
                + [dict(p=p, e0=0, e1=0, ni=ni, imult=p + 1) for p, ni in ((1, 1), (2, 1), (2, 2), (3, 1))])
def basis_one_repeated_end_knots(ctx, p, e0, e1, ni, imult=1):
    """requires: a normalised knot vector whose first knot is repeated p+1+e0 and last knot p+1+e1 times (non-decreasing,
                 accepted by knotvector.check; e > 0 leaves the outermost basis functions with an empty support), ni
                 symbolic interior knots; u at the domain start, the domain end, or anywhere in the domain
       ensures : both span searches return the non-empty interval of u; basis_function sums to one; for EVERY index i
                 basis_function_one(p, U, i, u) (and order 0 of basis_function_ders_one) is the Cox-de Boor value:
                 basis_function[i-span+p] inside the span's support, 0 outside; they sum to one over all i"""
    inner = [ctx.num('k%d' % (i + 1)) for i in range(ni)]
    chain = [ctx.lit(0)] + inner + [ctx.lit(1)]
    for x, y in zip(chain, chain[1:]):
        ctx.assume(ctx.lt(x, y))
    # imult: every interior knot repeated imult times (imult = p + 1: the shape may jump there, the basis functions that
    # start at such a knot have the value 1 at it and 0 at the first knot)
    U = [ctx.lit(0)] * (p + 1 + e0) + [k for k in inner for _ in range(imult)] + [ctx.lit(1)] * (p + 1 + e1)
    n = len(U) - p - 1
    hp = ctx.geomdl('helpers')
    ctx.check_true('knotvector.check_accepts', ctx.geomdl('knotvector').check(p, list(U), n) is True)
    shapes.separated_knots(ctx, U, SPAN_TOL)
    for where in ('start', 'end', 'any'):
        if where == 'any':
            u = shapes.param_in(ctx, 'u', U[p], U[n])
            ctx.assume(ctx.sep(u, U[n], SPAN_TOL))
        else:
            u = U[p] if where == 'start' else U[n]
        want = spec.span_spec(p, U, n, u)
        ctx.check_true(where + '.span.linear', hp.find_span_linear(p, list(U), n, u) == want)
        ctx.check_true(where + '.span.binsearch', hp.find_span_binsearch(p, list(U), n, u) == want)
        N = hp.basis_function(p, list(U), want, u)
        tot = 0
        for v in N:
            tot = tot + v
        ctx.check_eq(where + '.basis_function.sum_to_one', tot, 1)
        tot1 = 0
        for i in range(n):
            one = hp.basis_function_one(p, list(U), i, u)
            tot1 = tot1 + one
            expect = N[i - want + p] if want - p <= i <= want else 0
            ctx.check_eq('%s.basis_function_one[%d]' % (where, i), one, expect)
            ctx.check_eq('%s.basis_function_ders_one[%d][0]' % (where, i), hp.basis_function_ders_one(p, list(U), i, u, 0)[0], expect)
        ctx.check_eq(where + '.basis_function_one.sum_to_one', tot1, 1)


def _span_shapes(pmax, kmax, pdeep, kdeep):
    """degrees 1..pmax with up to kmax interior knots; degrees 1..pdeep with up to kdeep (the binary search needs at
    least 3 interior knots before it ever moves upwards from its first midpoint)"""
    out = []
    for p in range(1, pmax + 1):
        for mult in _patterns(p, kdeep if p <= pdeep else kmax):
            for clamped in (True, False):
                for search in ('linear', 'binsearch'):
                    out.append(dict(p=p, mult=mult, clamped=clamped, search=search))
    return out


def _end_mult_shapes():
    out = []
    for p, m_end, ni in ((2, 2, 1), (3, 2, 0), (3, 3, 1), (1, 1, 1)):
        for search in ('linear', 'binsearch'):
            out.append(dict(p=p, m_end=m_end, ni=ni, search=search))
    return out


@scenario('C03', fns=['helpers.find_span_linear', 'helpers.find_span_binsearch', 'helpers.basis_function'],
          quick=_end_mult_shapes)
def find_span_repeated_domain_end(ctx, p, m_end, ni, search):
    """requires: an unclamped knot vector whose domain-end knot U[n] is repeated m_end <= p times to its left
                 (U[n-m_end+1] = ... = U[n] < U[n+1]), ni interior knots before it; u anywhere in the domain
       ensures : the span postcondition (non-empty interval; the last non-empty one at the domain end), and the basis
                 functions of that span are defined there (no division by zero), non-negative and sum to one"""
    hs = [ctx.num('h%d' % i) for i in range(p + 1)]
    inner = [ctx.num('k%d' % (i + 1)) for i in range(ni)]
    e = ctx.num('e')
    ts = [ctx.num('t%d' % (i + 1)) for i in range(p)]
    chain = hs + inner + [e] + ts
    for x, y in zip(chain, chain[1:]):
        ctx.assume(ctx.lt(x, y))
    U = hs + inner + [e] * m_end + ts
    n = p + ni + m_end
    assert len(U) == n + p + 1 and U[n] is e
    u = shapes.param_in(ctx, 'u', U[p], U[n])
    hp = ctx.geomdl('helpers')
    if search == 'binsearch':
        shapes.separated_knots(ctx, U, SPAN_TOL)
        ctx.assume(ctx.sep(u, U[n], SPAN_TOL))
        f = hp.find_span_binsearch
    else:
        f = hp.find_span_linear
    r = f(p, list(U), n, u)
    _span_post(ctx, search, p, U, n, u, r)
    want = spec.span_spec(p, U, n, u)
    ctx.check_true(search + '.=span_spec', r == want, 'span %r, the last non-empty interval containing u is %r' % (r, want))
    N = hp.basis_function(p, list(U), want, u)
    row = spec.basis_row(p, U, want, u)
    ctx.check_true('basis.count', len(N) == p + 1)
    total = 0
    for j, v in enumerate(N):
        total = total + v
        ctx.check_eq('basis[%d]=CoxDeBoor' % j, v, row[want - p + j])
    ctx.check_eq('basis.sum_to_one', total, 1)


@scenario('C03', fns=['helpers.find_span_linear', 'helpers.find_span_binsearch', 'helpers.find_spans'],
          quick=lambda: _span_shapes(4, 2, 3, 4), thorough=lambda: _span_shapes(7, 4, 3, 6))
def find_span(ctx, p, mult, clamped, search):
    """requires valid_kv with symbolic end and interior knots, u anywhere in [U[p], U[n]];
                binsearch only: distinct knots more than 1e-5 apart and u == U[n] or farther than 1e-5 from it
       ensures  p <= r <= n-1, U[r] <= u < U[r+1] (last non-empty interval at u == U[n]), U[r] < U[r+1], r == span_spec;
                binsearch == linear; find_spans(..., [u, start, end]) == element-wise results (also with the default func)"""
    U, inner, n = shapes.make_kv(ctx, p, mult, clamped=clamped, normalized=False)
    lo, hi = U[p], U[n]
    u = shapes.param_in(ctx, 'u', lo, hi)
    hp = ctx.geomdl('helpers')
    if search == 'binsearch':
        shapes.separated_knots(ctx, U, SPAN_TOL)
        ctx.assume(ctx.sep(u, hi, SPAN_TOL))
        f = hp.find_span_binsearch
    else:
        f = hp.find_span_linear
    r = f(p, list(U), n, u)
    _span_post(ctx, search, p, U, n, u, r)
    ctx.check_true(search + '==span_spec', r == spec.span_spec(p, U, n, u))
    if search == 'binsearch':
        rl = hp.find_span_linear(p, list(U), n, u)
        ctx.check_true('binsearch==linear', r == rl, 'binsearch %r, linear %r' % (r, rl))
    # ends of the domain and the list lift
    r_lo, r_hi = f(p, list(U), n, lo), f(p, list(U), n, hi)
    _span_post(ctx, search + '@start', p, U, n, lo, r_lo)
    _span_post(ctx, search + '@end', p, U, n, hi, r_hi)
    got = hp.find_spans(p, list(U), n, [u, lo, hi], func=f)
    ctx.check_true('find_spans.lift', list(got) == [r, r_lo, r_hi], 'find_spans %r, single calls %r' % (got, [r, r_lo, r_hi]))
    if search == 'linear':
        got = hp.find_spans(p, list(U), n, [hi, u, lo])
        ctx.check_true('find_spans.default_func', list(got) == [r_hi, r, r_lo], 'find_spans %r' % (got,))
    # a parameter list that walks up the knots: each distinct knot of the domain preceded by a point of the interval to its
    # left (the answer for an element does not depend on the elements before it)
    dk = []
    for k in U[p:n + 1]:
        if not dk or not (k is dk[-1]):
            dk.append(k)
    walk = []
    for a, b in zip(dk, dk[1:]):
        walk += [a, (a + b) / 2]
    walk.append(dk[-1])
    got = hp.find_spans(p, list(U), n, list(walk), func=f)
    want = [f(p, list(U), n, t) for t in walk]
    ctx.check_true('find_spans.lift.walk_up_the_knots', list(got) == want, 'find_spans %r, single calls %r' % (got, want))


def _mult_shapes(pmax, kmax):
    out = []
    for p in range(1, pmax + 1):
        for mult in _patterns(p, kmax):
            for clamped in (True, False):
                out.append(dict(p=p, mult=mult, clamped=clamped))
    return out


@scenario('C03', fns=['helpers.find_multiplicity'],
          quick=lambda: _mult_shapes(4, 2), thorough=lambda: _mult_shapes(7, 4))
def multiplicity(ctx, p, mult, clamped):
    """requires valid_kv, x anywhere in [U[0], U[-1]] and tol-separated (1e-7) from every knot
       ensures  find_multiplicity(x, U) == #{i : U[i] == x}"""
    U, inner, n = shapes.make_kv(ctx, p, mult, clamped=clamped, normalized=False)
    x = shapes.param_in(ctx, 'x', U[0], U[-1])
    for k in _distinct(U):
        ctx.assume(ctx.sep(x, k, MULT_TOL))
    got = ctx.geomdl('helpers').find_multiplicity(x, list(U))
    want = sum(1 for k in U if x == k)
    ctx.check_true('multiplicity==count_equal', got == want, 'find_multiplicity %r, equal knots %r' % (got, want))


# ------------------------------------------------------------------------------------------------
# basis functions
# ------------------------------------------------------------------------------------------------
def _basis_shapes(tier):
    out = []
    if tier == 'quick':
        fam = [(p, 2, True) for p in range(1, 5)] + [(p, 2, False) for p in range(1, 4)]
    else:
        fam = [(p, 3, True) for p in range(1, 5)] + [(5, 2, True), (6, 2, True)] + [(p, 2, False) for p in range(1, 5)]
    for p, kmax, clamped in fam:
        for mult in _patterns(p, kmax):
            if p >= 5 and len(mult) > 2:
                continue
            for j in range(len(mult) + 1):
                for where in ('knot', 'open') + (('end',) if j == len(mult) else ()):
                    out.append(dict(p=p, mult=mult, clamped=clamped, j=j, where=where))
    return out


def _nonneg_posed(p, mult, clamped, where):
    """N[r] >= 0 is posed as the division-free polynomial inequality numerator(N[r]) >= 0 to z3/nlsat.  It is decided
    on every shape of both tiers (up to degree 6) except quartics with u strictly inside a span and many symbols:
    the fully symbolic unclamped quartic (9 to 11 symbols) and the clamped quartic with 3 interior symbols (middle
    spans) come back unknown after 20 s.  On those shapes the obligation is not posed; equality with the Cox-de Boor
    recursion and the sum are still proved there, and non-negativity is proved for u on a knot / the domain end."""
    if p >= 6 and len(mult) >= 2:
        return where != 'open'          # sextic with two interior symbols: unknown after 20 s under load, not posed
    return where != 'open' or p <= 3 or (clamped and len(mult) <= 2)


@scenario('C03', fns=['helpers.basis_function', 'helpers.basis_function_one', 'helpers.basis_function_all',
                      'helpers.basis_functions', 'helpers.basis_function_ders'],
          quick=lambda: _basis_shapes('quick'), thorough=lambda: _basis_shapes('thorough'))
def basis_values(ctx, p, mult, clamped, j, where):
    """requires valid_kv (clamped: normalised [0,1] with symbolic interior knots; unclamped: every knot symbolic),
                u in the j-th non-empty interval of the domain: on its left knot / strictly inside / (last interval)
                on the domain end;  span = span of u
       ensures  N = basis_function(p, U, span, u):  N[r] == Cox-de Boor B(span-p+r, p)(u);  sum N == 1;
                N[r] >= 0 (posed on every shape except two quartic families with u strictly inside, see _nonneg_posed);
                basis_function_one(p, U, i, u) == N[i-span+p] for span-p <= i <= span and == 0 for every other i < n;
                basis_function_all(...)[j][i] == B(span-i+j, i)(u) for j <= i <= p;  basis_function_ders(..., 0)[0] == N;
                basis_functions(p, U, [span, span0], [u, start]) == [N, basis_function at the domain start]"""
    U, inner, n = shapes.make_kv(ctx, p, mult, clamped=clamped, normalized=clamped)
    u = _pin_to_span(ctx, p, U, inner, n, j, where)
    hp = ctx.geomdl('helpers')
    span = spec.span_spec(p, U, n, u)
    ctx.check_true('span_index', span == p + sum(mult[:j]))
    N = hp.basis_function(p, list(U), span, u)
    ctx.check_true('basis_function.len', len(N) == p + 1)
    row = spec.basis_row(p, U, span, u)
    for r in range(p + 1):
        ctx.check_eq('basis_function[%d]==cox_de_boor' % r, N[r], row[span - p + r])
    tot = 0
    for r in range(p + 1):
        tot = tot + N[r]
    ctx.check_eq('sum_to_one', tot, 1)
    if _nonneg_posed(p, mult, clamped, where):
        for r in range(p + 1):
            ctx.check('nonneg[%d]' % r, _le(ctx, 0, N[r]), nonlinear=True)
    # single-function variant, every control-point index
    for i in range(n):
        one = hp.basis_function_one(p, list(U), i, u)
        if span - p <= i <= span:
            ctx.check_eq('basis_function_one.in_support[%d]' % (i - span + p), one, N[i - span + p])
        else:
            ctx.check_eq('basis_function_one.outside_support', one, 0)
    # all-degrees variant
    A = hp.basis_function_all(p, list(U), span, u)
    ctx.check_true('basis_function_all.shape', len(A) == p + 1 and all(len(a) == p + 1 for a in A))
    for d in range(p + 1):
        rd = spec.basis_row(d, U, span, u)
        for jj in range(d + 1):
            ctx.check_eq('basis_function_all[%d][%d]' % (jj, d), A[jj][d], rd[span - d + jj])
    # derivative variant, order 0
    D0 = hp.basis_function_ders(p, list(U), span, u, 0)
    ctx.check_true('basis_function_ders(order=0).rows', len(D0) == 1)
    ctx.check_eq_vec('basis_function_ders[0]==basis_function', D0[0], N)
    # list lift
    lo = U[p]
    s0 = spec.span_spec(p, U, n, lo)
    L = hp.basis_functions(p, list(U), [span, s0], [u, lo])
    ctx.check_true('basis_functions.len', len(L) == 2)
    ctx.check_eq_vec('basis_functions[0]', L[0], N)
    ctx.check_eq_vec('basis_functions[1]', L[1], hp.basis_function(p, list(U), s0, lo))


def _ders_shapes(tier):
    """the basis_values shapes below the domain end; one = the agreement with basis_function_ders_one is part of the
    instance (its zero-detection branches on derivative values multiply the paths and are polynomial zero tests for
    the solver: clamped from degree 5 on only with <= 1 interior symbol (degree 6: none), unclamped degree 4 only with
    u on a knot)"""
    out = []
    for d in _basis_shapes(tier):
        if d['where'] == 'end':
            continue
        p, k = d['p'], len(d['mult'])
        if d['clamped']:
            one = p <= 4 or (p == 5 and k <= 1) or (p == 6 and k == 0)
        else:
            one = p <= 3 or d['where'] == 'knot'
        out.append(dict(d, one=one))
    return out


def _ders_rows(ctx, hp, p, U, span, u, N):
    """contract of basis_function_ders for every order 0..p; returns the order-p table"""
    Dp = None
    for order in range(p, -1, -1):
        D = hp.basis_function_ders(p, list(U), span, u, order)
        ctx.check_true('ders(order=%d).rows' % order, len(D) == min(p, order) + 1 and all(len(d) == p + 1 for d in D))
        ctx.check_eq_vec('ders(order=%d)[0]==basis_function' % order, D[0], N)
        for k in range(1, order + 1):
            tot = 0
            for r in range(p + 1):
                tot = tot + D[k][r]
            ctx.check_eq('ders(order=%d)[%d].sum_to_zero' % (order, k), tot, 0)
        if Dp is None:
            Dp = D
        else:
            ctx.check_eq_grid('ders(order=%d)==prefix_of_ders(order=p)' % order, D, Dp[:order + 1])
    return Dp


@scenario('C03', fns=['helpers.basis_function_ders', 'helpers.basis_function_ders_one', 'helpers.basis_functions_ders'],
          quick=lambda: _ders_shapes('quick'), thorough=lambda: _ders_shapes('thorough'))
def basis_ders(ctx, p, mult, clamped, j, where, one):
    """requires as basis_values, but u < U[n]: on the left knot of the j-th interval or strictly inside it (span search
                and the half-open single-function variant then use the same side; the domain end is basis_ders_at_end)
       ensures  for order = 0..p:  D = basis_function_ders(p, U, span, u, order) has min(p, order)+1 rows,
                D[0] == basis_function, every row k >= 1 sums to 0, D[k][r] is the k-th formal u-derivative of
                basis_function[r] (sym mode, u strictly inside);  basis_function_ders_one(p, U, i, u, order)[k] == D[k][i-span+p] for i in
                the support and == 0 for every other i < n (order = p for every i, every order 0..p for the middle
                function of the support; only when `one`, see _ders_shapes);  basis_functions_ders is the list lift"""
    U, inner, n = shapes.make_kv(ctx, p, mult, clamped=clamped, normalized=clamped)
    u = _pin_to_span(ctx, p, U, inner, n, j, where)
    hp = ctx.geomdl('helpers')
    span = spec.span_spec(p, U, n, u)
    N = hp.basis_function(p, list(U), span, u)
    Dp = _ders_rows(ctx, hp, p, U, span, u, N)
    for i in (range(n) if one else ()):
        inside = span - p <= i <= span
        # every order for the middle function of the support, the full order p for every other index
        for order in (range(0, p + 1) if i == span - p // 2 else (p,)):
            d1 = hp.basis_function_ders_one(p, list(U), i, u, order)
            ctx.check_true('ders_one(order=%d).len' % order, len(d1) == order + 1)
            if inside:
                ctx.check_eq_vec('ders_one.in_support[%d].order[%d]' % (i - span + p, order), d1,
                                 [Dp[k][i - span + p] for k in range(order + 1)])
            else:
                ctx.check_eq_vec('ders_one.outside_support', d1, [0] * (order + 1))
    lo = U[p]
    s0 = spec.span_spec(p, U, n, lo)
    L = hp.basis_functions_ders(p, list(U), [span, s0], [u, lo], p)
    ctx.check_true('basis_functions_ders.len', len(L) == 2)
    ctx.check_eq_grid('basis_functions_ders[0]', L[0], Dp)
    ctx.check_eq_grid('basis_functions_ders[1]', L[1], hp.basis_function_ders(p, list(U), s0, lo, p))
    if ctx.mode == 'sym' and where == 'open':
        for r in range(p + 1):
            f = N[r]
            for k in range(1, p + 1):
                f = ctx.diff(f, 'u')
                ctx.check_eq('ders[%d][%d]==d^%d/du^%d basis_function' % (k, r, k, k), Dp[k][r], f)


def _end_shapes(tier):
    seen, out = [], []
    for d in _basis_shapes(tier):
        key = (d['p'], d['mult'], d['clamped'])
        if key not in seen:
            seen.append(key)
            out.append(dict(p=d['p'], mult=d['mult'], clamped=d['clamped']))
    return out


@scenario('C03', fns=['helpers.basis_function_ders', 'helpers.basis_function_ders_one'],
          quick=lambda: _end_shapes('quick'), thorough=lambda: _end_shapes('thorough'))
def basis_ders_at_end(ctx, p, mult, clamped):
    """the parameter at the domain end, u == U[n]; span = n-1 (the last non-empty interval), so basis_function and
       basis_function_ders give the left-hand values while basis_function_ders_one is written half-open (right-hand).
       ensures  the basis_function_ders contract of basis_ders (rows, [0] == basis_function, rows sum to 0);
                basis_function_ders_one(p, U, i, u, order)[0] == basis_function[i-span+p] (the value is the
                "single-function variant" of the statement, "at both ends"), and [k] == D[k][i-span+p] for the orders
                1 <= k <= p - (multiplicity of the end knot), where left- and right-hand derivatives coincide
                (simple end knot of an unclamped vector: k <= p-1; clamped: the value only);  0 outside the support"""
    U, inner, n = shapes.make_kv(ctx, p, mult, clamped=clamped, normalized=clamped)
    u = U[n]
    hp = ctx.geomdl('helpers')
    span = spec.span_spec(p, U, n, u)
    ctx.check_true('span_at_end', span == n - 1)
    N = hp.basis_function(p, list(U), span, u)
    Dp = _ders_rows(ctx, hp, p, U, span, u, N)
    smooth = p - sum(1 for k in U if k is u)
    for i in range(n):
        inside = span - p <= i <= span
        for order in (range(0, p + 1) if i == span - p // 2 else (p,)):
            one = hp.basis_function_ders_one(p, list(U), i, u, order)
            ctx.check_true('ders_one@end(order=%d).len' % order, len(one) == order + 1)
            if inside:
                ctx.check_eq('ders_one@end.value[%d]' % (i - span + p), one[0], N[i - span + p])
                for k in range(1, min(order, smooth) + 1):
                    ctx.check_eq('ders_one@end.derivative(k=%d)[%d]' % (k, i - span + p), one[k], Dp[k][i - span + p])
            else:
                ctx.check_eq_vec('ders_one@end.outside_support', one, [0] * (order + 1))


def _above_shapes(tier):
    out = []
    for p in ((1, 2, 3) if tier == 'quick' else (1, 2, 3, 4, 5)):
        for extra in (1, 2):
            for fn in ('basis_function_ders', 'basis_function_ders_one'):
                for j, where in ((0, 'open'), (1, 'knot')):
                    out.append(dict(p=p, mult=[1], extra=extra, fn=fn, j=j, where=where))
    return out


@scenario('C03', fns=['helpers.basis_function_ders', 'helpers.basis_function_ders_one'],
          quick=lambda: _above_shapes('quick'), thorough=lambda: _above_shapes('thorough'))
def basis_ders_above_degree(ctx, p, mult, extra, fn, j, where):
    """derivative orders above the degree ("all derivative orders"): order = p + extra, clamped normalised vector.
       ensures  basis_function_ders returns min(p, order)+1 = p+1 rows (the cap written in the function) equal to the
                order-p result, rows k >= 1 sum to 0;
                basis_function_ders_one returns order+1 values: the order-p values followed by zeros"""
    U, inner, n = shapes.make_kv(ctx, p, mult)
    u = _pin_to_span(ctx, p, U, inner, n, j, where)
    hp = ctx.geomdl('helpers')
    span = spec.span_spec(p, U, n, u)
    order = p + extra
    if fn == 'basis_function_ders':
        Dp = hp.basis_function_ders(p, list(U), span, u, p)
        D = hp.basis_function_ders(p, list(U), span, u, order)
        ctx.check_true('ders(order>p).rows', len(D) == p + 1)
        ctx.check_eq_grid('ders(order>p)==ders(order=p)', D, Dp)
        for k in range(1, p + 1):
            tot = 0
            for r in range(p + 1):
                tot = tot + D[k][r]
            ctx.check_eq('ders(order>p)[%d].sum_to_zero' % k, tot, 0)
    else:
        for i in range(span - p, span + 1):
            one_p = hp.basis_function_ders_one(p, list(U), i, u, p)
            one = hp.basis_function_ders_one(p, list(U), i, u, order)
            ctx.check_true('ders_one(order>p).len', len(one) == order + 1)
            ctx.check_eq_vec('ders_one(order>p).in_support[%d]' % (i - span + p), one, list(one_p) + [0] * extra)


# ------------------------------------------------------------------------------------------------
# knot vectors
# ------------------------------------------------------------------------------------------------
@scenario('C03', fns=['knotvector.generate', 'knotvector.check', 'linalg.linspace', 'utilities.generate_knot_vector'],
          quick=[dict(degree=d) for d in range(1, 8)],
          # the same contract at run time on native floats for counts at which an evenly spaced sequence computed as
          # start + i*step misses its end value by one ulp (outside A1: invisible in exact arithmetic)
          native=lambda tier: [dict(degree=3, counts=[52, 101, 106, 110]), dict(degree=2, counts=[51, 100])])
def kv_generate(ctx, degree, counts=None):
    """concrete sweep: num_ctrlpts = degree+1 .. degree+8, clamped and unclamped (exact arithmetic, equality is exact)
       ensures  len == degree + num_ctrlpts + 1; non-decreasing; first 0, last 1; clamped: end multiplicity exactly
                degree+1; unclamped: simple end knots (indeed all knots distinct); knotvector.check accepts it"""
    kvm = ctx.geomdl('knotvector')
    ut = ctx.geomdl('utilities')
    ctx.check_true('utilities.aliases', ut.generate_knot_vector is kvm.generate and ut.check_knot_vector is kvm.check
                   and ut.normalize_knot_vector is kvm.normalize)
    for n in (counts or range(degree + 1, degree + 9)):
        for clamped in (True, False):
            tag = 'generate(%s)' % ('clamped' if clamped else 'unclamped')
            U = kvm.generate(degree, n, clamped=clamped)
            what = 'degree=%d num_ctrlpts=%d: %r' % (degree, n, U)
            ctx.check_true(tag + '.len', len(U) == degree + n + 1, what)
            for a, b in zip(U, U[1:]):
                ctx.check(tag + '.non_decreasing', ctx.le(a, b), what)
            ctx.check_eq(tag + '.first==0', U[0], 0)
            ctx.check_eq(tag + '.last==1', U[-1], 1)
            if clamped:
                for i in range(degree + 1):
                    ctx.check_eq(tag + '.head_mult', U[i], U[0])
                    ctx.check_eq(tag + '.tail_mult', U[-1 - i], U[-1])
                # multiplicity is counted with ==: the repeated end knots are the same number, not numbers one ulp apart
                ctx.check_true(tag + '.end_knots_identical', all(U[i] == U[0] and U[-1 - i] == U[-1] for i in range(degree + 1)), what)
                ctx.check(tag + '.head_mult_exact', ctx.lt(U[degree], U[degree + 1]), what)
                ctx.check(tag + '.tail_mult_exact', ctx.lt(U[-degree - 2], U[-degree - 1]), what)
            else:
                ctx.check(tag + '.head_simple', ctx.lt(U[0], U[1]), what)
                ctx.check(tag + '.tail_simple', ctx.lt(U[-2], U[-1]), what)
            ctx.check_true(tag + '.passes_check', kvm.check(degree, U, n) is True, what)
    U = kvm.generate(degree, degree + 2)
    ctx.check_eq_vec('generate.default_is_clamped', U, kvm.generate(degree, degree + 2, clamped=True))
    # the returned list is the caller's: editing it must not change what a later call returns
    for clamped in (True, False):
        U1 = kvm.generate(degree, degree + 3, clamped=clamped)
        snap = list(U1)
        U1.reverse()
        U1.append(U1[0] + 7)
        U1[0] = U1[0] - 3
        U2 = kvm.generate(degree, degree + 3, clamped=clamped)
        ctx.check_true('generate.again_after_caller_edit.len', len(U2) == len(snap), '%r' % (U2,))
        ctx.check_eq_vec('generate.again_after_caller_edit', U2, snap)


@scenario('C03', fns=['knotvector.normalize'],
          quick=[dict(m=m) for m in (2, 3, 4, 5, 6, 8)], thorough=[dict(m=m) for m in range(2, 17)])
def kv_normalize(ctx, m):
    """requires U non-decreasing, m symbolic knots, U[0] < U[-1]
       ensures  result[i] == (U[i]-U[0])/(U[-1]-U[0]); order preserved (<= stays <=, < stays <); first 0, last 1"""
    U = ctx.nums('k', m)
    ctx.assume_sorted(U)
    ctx.assume(ctx.lt(U[0], U[-1]))
    R = ctx.geomdl('knotvector').normalize(list(U))
    ctx.check_true('normalize.len', len(R) == m)
    for i in range(m):
        ctx.check_eq('normalize[%d]==affine' % i, R[i], (U[i] - U[0]) / (U[-1] - U[0]))
    ctx.check_eq('normalize.first==0', R[0], 0)
    ctx.check_eq('normalize.last==1', R[-1], 1)
    for i in range(m - 1):
        ctx.check('normalize.order_preserved[%d]' % i, _le(ctx, R[i], R[i + 1]))
        ctx.check('normalize.strict_order_preserved[%d]' % i, ctx.implies(ctx.lt(U[i], U[i + 1]), _lt(ctx, R[i], R[i + 1])))


def _check_shapes(pmax):
    out = []
    for p in range(1, pmax + 1):
        for n in (p + 1, p + 2, p + 3):
            out.append(dict(p=p, n=n, case='valid'))
            out.append(dict(p=p, n=n, case='length'))
        n = p + 2
        m = n + p + 1
        for pos in sorted(set([0, 1, m // 2, m - 3, m - 2])):
            out.append(dict(p=p, n=n, case='decreasing@%d' % pos))
    return out


@scenario('C03', fns=['knotvector.check'], quick=lambda: _check_shapes(4), thorough=lambda: _check_shapes(7))
def kv_check(ctx, p, n, case):
    """check(p, U, n) is True iff len(U) == n+p+1 and U is non-decreasing:
       valid         symbolic non-decreasing U of the right length (ties allowed)            -> True
       length        the same with one knot missing / one knot too many, and any other n, p  -> False
       decreasing@i  right length, U[i] > U[i+1], every other knot unconstrained              -> False"""
    kvm = ctx.geomdl('knotvector')
    m = n + p + 1
    U = ctx.nums('k', m)
    if case == 'valid':
        ctx.assume_sorted(U)
        ctx.check_true('check.accepts_valid', kvm.check(p, list(U), n) is True)
        ctx.check_true('check.accepts_valid_tuple', kvm.check(p, tuple(U), n) is True)
    elif case == 'length':
        ctx.assume_sorted(U)
        extra = ctx.num('extra')
        ctx.assume(ctx.le(U[-1], extra))
        ctx.check_true('check.rejects_short', kvm.check(p, list(U[:-1]), n) is False)
        ctx.check_true('check.rejects_long', kvm.check(p, list(U) + [extra], n) is False)
        ctx.check_true('check.rejects_other_count', kvm.check(p, list(U), n + 1) is False and kvm.check(p, list(U), n - 1) is False)
        ctx.check_true('check.rejects_other_degree', kvm.check(p + 1, list(U), n) is False)
    else:
        pos = int(case.split('@')[1])
        ctx.assume(ctx.gt(U[pos], U[pos + 1]))
        ctx.check_true('check.rejects_decreasing', kvm.check(p, list(U), n) is False)
