"""C05 Knot refinement never changes the shape.

Contracts (requires / ensures) on the real helpers.knot_refinement and operations.refine_knotvector on
BSpline/NURBS Curve, Surface, Volume; the postcondition text is the property statement:
  * every evaluated point unchanged (identity in QQ(knots, u, control points, weights)),
  * after refinement with density d every interior knot interval of the original has been bisected d times and
    every interior knot has multiplicity equal to the degree (the expected knot vector is written down from that
    sentence by `refined_kv` below and compared element-wise),
  * directions that were not selected (density 0) are untouched (knot vector, size),
  * helper level: explicit `knot_list` / `add_knot_list`; density < 1 or non-int is rejected by the helper.

Tolerance: knot_refinement treats |knot - X| < 1e-7 as zero and find_multiplicity uses 1e-7, so the precondition
asks that adjacent knots of the *refined* vector are farther apart than 1e-7 (gap of the original > 2**d * 1e-7).
"""
from fractions import Fraction

from .api import scenario
from . import shapes, spec, assumptions

assumptions.PROPS['C05'] = {'level': 'other', 'assume': ['A1', 'A4', 'A5', 'A6']}

TOL = Fraction(1, 10 ** 7)     # helpers.knot_refinement: tol = 10e-8 ; helpers.find_multiplicity: tol = 10e-8


# ---- the definition ---------------------------------------------------------------------------------------------
def bisect(D, d):
    """distinct knots D with every interval bisected d times"""
    D = list(D)
    for _ in range(d):
        out = []
        for a, b in zip(D, D[1:]):
            out += [a, (a + b) / 2]
        out.append(D[-1])
        D = out
    return D


def refined_kv(p, lo, inner, hi, d):
    """clamped knot vector over the distinct knots lo < inner... < hi after refinement with density d: every
    interval bisected d times, every interior knot with multiplicity p"""
    D = bisect([lo] + list(inner) + [hi], d)
    U = [lo] * (p + 1)
    for x in D[1:-1]:
        U += [x] * p
    return U + [hi] * (p + 1)


def _gaps(ctx, U, inner, d):
    """requires: adjacent distinct knots of the refined vector farther apart than the code's tolerance"""
    chain = [U[0]] + list(inner) + [U[-1]]
    for a, b in zip(chain, chain[1:]):
        ctx.assume(ctx.gt(b - a, TOL * 2 ** d))


# ---- curves -----------------------------------------------------------------------------------------------------
def _curve_shapes(tier):
    out = []
    pmax, kmax = (3, 2) if tier == 'quick' else (4, 3)
    for p in range(1, pmax + 1):
        for nd in range(0, kmax + 1):                      # nd = number of distinct interior knots
            for mult in _patterns(nd, p):
                out.append(dict(p=p, mult=list(mult), d=1, rational=False))
                if (p <= 2 and tier == 'quick') or (p <= 3 and tier == 'thorough' and nd <= 2):
                    out.append(dict(p=p, mult=list(mult), d=2, rational=False))
    out.append(dict(p=2, mult=[1], d=1, rational=True))
    out.append(dict(p=1, mult=[1], d=2, rational=True))
    # densities 3 and 4: "bisected d times" means 2**d pieces, which differs from 2*d only from d = 3 on
    out.append(dict(p=1, mult=[], d=3, rational=False))
    out.append(dict(p=2, mult=[], d=3, rational=False))
    out.append(dict(p=1, mult=[1], d=3, rational=False))
    out.append(dict(p=1, mult=[], d=4, rational=False))
    # clamped knot vectors kept as given (normalize_kv=False, symbolic range [a, b])
    out.append(dict(p=2, mult=[1], d=1, rational=False, norm=False))
    out.append(dict(p=1, mult=[1], d=2, rational=True, norm=False))
    if tier == 'thorough':
        out.append(dict(p=2, mult=[1], d=3, rational=False))
        out.append(dict(p=3, mult=[2], d=1, rational=True))
    return out


def _patterns(nd, p):
    """all multiplicity patterns (1..p each) of nd distinct interior knots"""
    if nd == 0:
        return [()]
    return [(m,) + rest for m in range(1, p + 1) for rest in _patterns(nd - 1, p)]


@scenario('C05', fns=['operations.refine_knotvector', 'helpers.knot_refinement', 'helpers.find_multiplicity',
                      'helpers.find_span_linear', 'BSpline.Curve.set_ctrlpts', 'BSpline.Curve.knotvector',
                      'BSpline.Curve.evaluate_single'],
          quick=lambda: _curve_shapes('quick'), thorough=lambda: _curve_shapes('thorough'))
def curve_refine(ctx, p, mult, d, rational, norm=True):
    """requires: valid clamped knot vector, refined knots farther apart than 1e-7, positive weights, u in domain
       ensures : evaluate_single(u) == C(u) of the original definition; knot vector == refined_kv; size follows"""
    U, inner, n = shapes.make_kv(ctx, p, mult, normalized=norm)
    _gaps(ctx, U, inner, d)
    u = shapes.param_in(ctx, 'u', U[0], U[-1])
    P = shapes.net(ctx, 'P', n, 2)
    W = shapes.weights(ctx, 'w', n) if rational else None
    crv = shapes.build_curve(ctx, p, U, P, W, normalize_kv=norm)
    Pw = shapes.homog(P, W)
    if rational:
        ctx.assume_pos(spec.curve_point(p, U, [[w] for w in W], u)[0], 'L.weight_function_positive')
    ret = ctx.geomdl('operations').refine_knotvector(crv, [d])
    ctx.check_true('returns.same_object', ret is crv)
    want_kv = refined_kv(p, U[0], inner, U[-1], d)
    ctx.check_eq_vec('kv.bisected_d_times_mult_p', crv.knotvector, want_kv)
    m = len(want_kv) - p - 1
    ctx.check_true('size.follows_kv', crv.ctrlpts_size == m and len(crv.ctrlpts) == m)
    want = spec.curve_point(p, U, Pw, u)
    want = spec.project(want) if rational else want
    ctx.check_eq_vec('shape.unchanged', crv.evaluate_single(u), want)
    if rational:
        ctx.check_true('weights.count', len(crv.weights) == m)


# ---- helper level: explicit / additional knot lists, rejection ------------------------------------------------
def _helper_shapes(tier):
    out = [dict(p=2, mult=[1], mode='knot_list', d=1),
           dict(p=2, mult=[], mode='add_knot_list', d=1),
           dict(p=2, mult=[1], mode='add_knot_list', d=1),          # the additional knot may coincide with an interior knot
           dict(p=2, mult=[1], mode='knot_list1', d=1), dict(p=3, mult=[], mode='knot_list1', d=2),     # a single listed knot
           dict(p=1, mult=[1], mode='knot_list', d=2),
           dict(p=3, mult=[], mode='knot_list', d=1),
           dict(p=2, mult=[2], mode='default', d=1),
           # the knot vector handed over as a tuple; an explicit knot_list (kept by the caller) together with add_knot_list
           dict(p=2, mult=[], mode='add_knot_list', d=1, kvtype='tuple'),
           dict(p=2, mult=[1], mode='knot_list+add', d=1)]
    if tier == 'thorough':
        out += [dict(p=3, mult=[1], mode='knot_list', d=1),
                dict(p=3, mult=[2], mode='add_knot_list', d=1),
                dict(p=2, mult=[1, 1], mode='knot_list', d=2)]
    return out


@scenario('C05', fns=['helpers.knot_refinement', 'helpers.find_multiplicity', 'helpers.find_span_linear'],
          quick=lambda: _helper_shapes('quick'), thorough=lambda: _helper_shapes('thorough'))
def helper_refine(ctx, p, mult, mode, d, kvtype='list'):
    """helpers.knot_refinement with an explicit knot_list [a, b] (a < b in the open domain, each equal to a knot or
    farther than 1e-7 from every knot) or add_knot_list [a] on top of the default list.
    ensures: the returned (ctrlpts, kv) define the same curve (spec evaluation of both); kv == the original knots with
    every listed knot and every bisection point raised to multiplicity p (sorted merge); len(ctrlpts) follows."""
    U, inner, n = shapes.make_kv(ctx, p, mult)
    lo, hi = U[0], U[-1]
    u = shapes.param_in(ctx, 'u', lo, hi)
    P = shapes.net(ctx, 'P', n, 2)
    hp = ctx.geomdl('helpers')
    a = shapes.param_in(ctx, 'a', lo, hi, open_lo=True, open_hi=True)
    kw = {'density': d}
    if mode == 'knot_list1':
        listed = [a]                 # nothing to bisect between: the one knot is raised to multiplicity p, whatever the density
        kw['knot_list'] = [a]
    elif mode == 'knot_list':
        b = shapes.param_in(ctx, 'b', lo, hi, open_lo=True, open_hi=True)
        ctx.assume(ctx.gt(b - a, TOL * 2 ** d))
        listed = bisect([a, b], d)
        kw['knot_list'] = [a, b]
    elif mode == 'knot_list+add':
        b = shapes.param_in(ctx, 'b', lo, hi, open_lo=True, open_hi=True)
        ctx.assume(ctx.gt(b - a, TOL * 2 ** d))
        listed = bisect([a, b], d)
        kept = [a]
        kw['knot_list'] = kept
        kw['add_knot_list'] = (b,)
    elif mode == 'add_knot_list':
        listed = None
        kw['add_knot_list'] = [a]
    else:
        listed = None
    if listed is None:
        # default list = distinct knots of the domain (plus a): every interval between them is bisected
        base = []
        placed = mode != 'add_knot_list'
        for k in [lo] + list(inner) + [hi]:
            ctx.assume(ctx.sep(a, k, TOL))
            if not placed:
                if a == k:
                    placed = True
                elif a < k:
                    base.append(a)
                    placed = True
            base.append(k)
        for x, y in zip(base, base[1:]):
            ctx.assume(ctx.gt(y - x, TOL * 2 ** d))
        listed = bisect(base, d)
    # every knot that gets refined is a knot of U or farther than the tolerance from each of them
    for x in listed:
        for k in [lo] + list(inner) + [hi]:
            ctx.assume(ctx.sep(x, k, TOL))
    new_P, new_U = hp.knot_refinement(p, tuple(U) if kvtype == 'tuple' else list(U), [list(q) for q in P], **kw)
    if mode == 'knot_list+add':
        # the same list object used again WITHOUT additional knots: that call refines the listed knot alone
        P2, U2 = hp.knot_refinement(p, list(U), [list(q) for q in P], knot_list=kept, density=d)
        want2, m2 = list(U), n
        s2 = sum(1 for k in want2 if k == a)
        if s2 < p:
            want2 = spec.insert_sorted(want2, a, p - s2, spec.span_spec(p, want2, m2, a))
        ctx.check_eq_vec('second_call_with_the_same_knot_list.kv', U2, want2)
    # the refined knot vector by definition: the original knots, and every listed knot raised to multiplicity p
    want_U, m = list(U), n
    for x in listed:
        s = sum(1 for k in want_U if k == x)
        if s < p:
            want_U = spec.insert_sorted(want_U, x, p - s, spec.span_spec(p, want_U, m, x))
            m += p - s
    ctx.check_eq_vec('kv.listed_knots_raised_to_multiplicity_p', new_U, want_U)
    ctx.check_true('size.follows_kv', len(new_P) == m)
    ctx.check_eq_vec('shape.unchanged', spec.curve_point(p, new_U, new_P, u), spec.curve_point(p, U, P, u))


@scenario('C05', fns=['helpers.knot_refinement', 'operations.refine_knotvector'],
          quick=[dict(p=2, mult=[1])])
def reject(ctx, p, mult):
    """density < 1 or non-int is rejected by the helper; malformed param is rejected by operations"""
    U, inner, n = shapes.make_kv(ctx, p, mult)
    P = shapes.net(ctx, 'P', n, 2)
    hp = ctx.geomdl('helpers')
    exc = ctx.geomdl('exceptions').GeomdlException
    for name, dens in (('zero', 0), ('negative', -1), ('fraction', Fraction(3, 2)), ('string', '1')):
        ctx.check_raises('reject.density_' + name, exc, hp.knot_refinement, p, list(U), [list(q) for q in P],
                         density=dens)
    crv = shapes.build_curve(ctx, p, U, P)
    ops = ctx.geomdl('operations')
    ctx.check_raises('reject.param_not_a_list', exc, ops.refine_knotvector, crv, 1)
    ctx.check_raises('reject.param_wrong_length', exc, ops.refine_knotvector, crv, [1, 1])
    ctx.check_eq_vec('reject.kv_unchanged', crv.knotvector, U)
    ctx.check_eq_grid('reject.ctrlpts_unchanged', crv.ctrlpts, P)
    # density 0 = direction not selected: untouched
    ops.refine_knotvector(crv, [0])
    ctx.check_eq_vec('unselected.kv_untouched', crv.knotvector, U)
    ctx.check_eq_grid('unselected.ctrlpts_untouched', crv.ctrlpts, P)


# ---- surfaces ---------------------------------------------------------------------------------------------------
def _surf_shapes(tier):
    base = [dict(pu=2, pv=1, mu=[1], mv=[], dens=[1, 0], rational=False),
            dict(pu=2, pv=1, mu=[1], mv=[], dens=[0, 1], rational=False),
            dict(pu=1, pv=2, mu=[], mv=[1], dens=[1, 1], rational=False),
            dict(pu=2, pv=2, mu=[], mv=[], dens=[2, 1], rational=False),
            dict(pu=2, pv=2, mu=[1], mv=[1], dens=[1, 1], rational=False),
            dict(pu=3, pv=2, mu=[2], mv=[], dens=[1, 1], rational=False),
            dict(pu=1, pv=1, mu=[], mv=[], dens=[1, 1], rational=True),
            dict(pu=2, pv=1, mu=[], mv=[], dens=[1, 0], rational=True)]
    if tier == 'thorough':
        base += [dict(pu=3, pv=2, mu=[1], mv=[1], dens=[1, 1], rational=False),
                 dict(pu=2, pv=2, mu=[2], mv=[1], dens=[1, 2], rational=False),
                 dict(pu=2, pv=1, mu=[], mv=[], dens=[1, 1], rational=True)]
    return base


@scenario('C05', fns=['operations.refine_knotvector', 'helpers.knot_refinement', 'compatibility.flip_ctrlpts_u',
                      'BSpline.Surface.set_ctrlpts', 'BSpline.Surface.evaluate_single'],
          quick=lambda: _surf_shapes('quick'), thorough=lambda: _surf_shapes('thorough'))
def surface_refine(ctx, pu, pv, mu, mv, dens, rational):
    """ensures: S(u,v) unchanged; selected directions have refined_kv, unselected keep knot vector and size"""
    U, iu, su = shapes.make_kv(ctx, pu, mu, prefix='a')
    V, iv, sv = shapes.make_kv(ctx, pv, mv, prefix='b')
    _gaps(ctx, U, iu, dens[0])
    _gaps(ctx, V, iv, dens[1])
    u = shapes.param_in(ctx, 'u', U[0], U[-1])
    v = shapes.param_in(ctx, 'v', V[0], V[-1])
    P = shapes.net(ctx, 'P', su * sv, 3)
    W = shapes.weights(ctx, 'w', su * sv) if rational else None
    srf = shapes.build_surface(ctx, pu, pv, U, V, P, su, sv, W)
    Pw = shapes.homog(P, W)
    if rational:
        ctx.assume_pos(spec.surface_point(pu, pv, U, V, [[w] for w in W], su, sv, u, v)[0], 'L.weight_function_positive')
    ctx.geomdl('operations').refine_knotvector(srf, list(dens))
    wu = refined_kv(pu, U[0], iu, U[-1], dens[0]) if dens[0] > 0 else U
    wv = refined_kv(pv, V[0], iv, V[-1], dens[1]) if dens[1] > 0 else V
    ctx.check_eq_vec('kv_u.' + ('refined' if dens[0] > 0 else 'untouched'), srf.knotvector_u, wu)
    ctx.check_eq_vec('kv_v.' + ('refined' if dens[1] > 0 else 'untouched'), srf.knotvector_v, wv)
    eu, ev = len(wu) - pu - 1, len(wv) - pv - 1
    ctx.check_true('size.only_selected_directions', srf.ctrlpts_size_u == eu and srf.ctrlpts_size_v == ev
                   and len(srf.ctrlpts) == eu * ev)
    want = spec.surface_point(pu, pv, U, V, Pw, su, sv, u, v)
    want = spec.project(want) if rational else want
    ctx.check_eq_vec('shape.unchanged', srf.evaluate_single([u, v]), want)


# ---- volumes ----------------------------------------------------------------------------------------------------
def _vol_shapes(tier):
    base = [dict(deg=[1, 1, 1], m=[[], [], []], dens=[1, 0, 0]),
            dict(deg=[1, 1, 1], m=[[], [], []], dens=[0, 1, 0]),
            dict(deg=[1, 1, 1], m=[[], [], []], dens=[0, 0, 1]),
            dict(deg=[2, 1, 1], m=[[], [], []], dens=[1, 1, 0]),
            dict(deg=[2, 1, 1], m=[[1], [], []], dens=[1, 0, 1])]
    if tier == 'thorough':
        base += [dict(deg=[2, 2, 1], m=[[1], [1], []], dens=[1, 2, 0]),
                 dict(deg=[1, 2, 1], m=[[], [1], []], dens=[1, 1, 1]),
                 dict(deg=[1, 1, 2], m=[[], [], []], dens=[0, 1, 2])]
    return base


@scenario('C05', fns=['operations.refine_knotvector', 'helpers.knot_refinement', 'BSpline.Volume.set_ctrlpts',
                      'BSpline.Volume.evaluate_single'],
          quick=lambda: _vol_shapes('quick'), thorough=lambda: _vol_shapes('thorough'))
def volume_refine(ctx, deg, m, dens):
    """ensures: V(u,v,w) unchanged; selected directions refined, the others untouched"""
    kvs, inner, sizes = [], [], []
    for a, pfx in enumerate('abc'):
        U, iu, n = shapes.make_kv(ctx, deg[a], m[a], prefix=pfx)
        _gaps(ctx, U, iu, dens[a])
        kvs.append(U)
        inner.append(iu)
        sizes.append(n)
    prm = [shapes.param_in(ctx, nm, ctx.lit(0), ctx.lit(1)) for nm in ('u', 'v', 'w')]
    su, sv, sw = sizes
    P = shapes.net(ctx, 'P', su * sv * sw, 3)
    vol = shapes.build_volume(ctx, deg[0], deg[1], deg[2], kvs[0], kvs[1], kvs[2], P, su, sv, sw)
    ctx.geomdl('operations').refine_knotvector(vol, list(dens))
    got = [vol.knotvector_u, vol.knotvector_v, vol.knotvector_w]
    exp = []
    for a in range(3):
        if dens[a] > 0:
            w = refined_kv(deg[a], kvs[a][0], inner[a], kvs[a][-1], dens[a])
            ctx.check_eq_vec('kv%d.refined' % a, got[a], w)
        else:
            w = kvs[a]
            ctx.check_eq_vec('kv%d.untouched' % a, got[a], w)
        exp.append(len(w) - deg[a] - 1)
    ctx.check_true('size.only_selected_directions', [vol.ctrlpts_size_u, vol.ctrlpts_size_v, vol.ctrlpts_size_w] == exp
                   and len(vol.ctrlpts) == exp[0] * exp[1] * exp[2])
    want = spec.volume_point(deg[0], deg[1], deg[2], kvs[0], kvs[1], kvs[2], P, su, sv, sw, prm[0], prm[1], prm[2])
    ctx.check_eq_vec('shape.unchanged', vol.evaluate_single(prm), want)


@scenario('C05', fns=['helpers.knot_refinement'],
          quick=[dict(p=2, mult=[1], cols=2, d=1), dict(p=1, mult=[1], cols=3, d=1), dict(p=2, mult=[], cols=2, d=2)])
def helper_refine_rows(ctx, p, mult, cols, d):
    """requires: helpers.knot_refinement on a net given as ROWS of points (one row per index of the refined direction,
                 `cols` points per row - the form used for surfaces and volumes), default knot list, density d
       ensures : column j of the refined net is the refinement of column j taken as a curve (the rows are refined
                 independently of each other); the same call repeated with the same arguments gives the same net and knot
                 vector (the caller's net is not consumed by the first call)"""
    U, inner, n = shapes.make_kv(ctx, p, mult)
    for x, y in zip([U[0]] + inner, inner + [U[-1]]):
        ctx.assume(ctx.gt(y - x, TOL * 2 ** d))
    hp = ctx.geomdl('helpers')
    net = [[[ctx.num('N%d_%d' % (i, j)), ctx.lit(Fraction(i * i + j, 2)), ctx.lit(i - j)] for j in range(cols)] for i in range(n)]
    arg = [[list(q) for q in row] for row in net]
    first, kv1 = hp.knot_refinement(p, list(U), arg, density=d)
    ctx.check_true('rows.shape', all(len(row) == cols for row in first))
    for j in range(cols):
        col, kvc = hp.knot_refinement(p, list(U), [list(net[i][j]) for i in range(n)], density=d)
        ctx.check_eq_vec('column%d.knotvector' % j, kvc, kv1)
        ctx.check_true('column%d.len' % j, len(col) == len(first))
        if len(col) == len(first):
            ctx.check_eq_grid('column%d=refinement_of_the_column_curve' % j, [row[j] for row in first], col)
    again, kv2 = hp.knot_refinement(p, list(U), arg, density=d)
    ctx.check_eq_vec('repeated_call.knotvector', kv2, kv1)
    ctx.check_true('repeated_call.len', len(again) == len(first))
    for i in range(min(len(again), len(first))):
        ctx.check_eq_grid('repeated_call.row%d' % i, again[i], first[i])
