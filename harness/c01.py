"""C01 Evaluated points equal the B-spline/NURBS definition (bounded tier; the unbounded part is in pyvc contracts).

Postcondition (from the property text): every evaluation entry point returns
    C(u) = sum_i B_i(u) P_i   [ / sum_i B_i(u) w_i  for rational shapes ]
(tensor product for surfaces / volumes); the sampled grid has prod(sample_size) points, u outermost then v then w,
and starts/ends exactly on the domain corners.  Spec: harness/spec.py (span-anchored Cox-de Boor)."""
from fractions import Fraction

from .api import scenario
from . import shapes, spec, assumptions

assumptions.PROPS['C01'] = {'level': 'proof', 'assume': ['A1', 'A2', 'A3', 'A5', 'A6']}

SPAN_TOL = Fraction(1, 10 ** 5)     # helpers.find_span_binsearch: tol = 10e-6


def _evaluator(ctx, kind, rational, span, alt=False):
    ev = ctx.geomdl('evaluators')
    hp = ctx.geomdl('helpers')
    f = {'linear': hp.find_span_linear, 'binsearch': hp.find_span_binsearch}[span]
    if alt:      # the alternative evaluator classes shipped for non-rational shapes (A3.3/A3.4, A3.7/A3.8)
        return {'curve': ev.CurveEvaluator2, 'surface': ev.SurfaceEvaluator2}[kind](find_span_func=f)
    cls = {('curve', False): ev.CurveEvaluator, ('curve', True): ev.CurveEvaluatorRational,
           ('surface', False): ev.SurfaceEvaluator, ('surface', True): ev.SurfaceEvaluatorRational,
           ('volume', False): ev.VolumeEvaluator, ('volume', True): ev.VolumeEvaluatorRational}[(kind, rational)]
    return cls(find_span_func=f)


def _curve_shapes(tier):
    out = []
    pmax, kmax = (3, 2) if tier == 'quick' else (5, 3)
    for p in range(1, pmax + 1):
        for k in range(0, kmax + 1):
            for mult in shapes.compositions(k, p):
                if p >= 4 and len(mult) > 2:
                    continue
                out.append(dict(p=p, mult=list(mult), rational=False, span='linear', clamped=True, samples=3))
    for p, mult in ((2, [1]), (3, [1, 1]), (2, [2])):
        out.append(dict(p=p, mult=mult, rational=True, span='linear', clamped=True, samples=3))
        out.append(dict(p=p, mult=mult, rational=False, span='binsearch', clamped=True, samples=4))
    out.append(dict(p=2, mult=[1], rational=False, span='linear', clamped=False, samples=3))
    out.append(dict(p=2, mult=[1, 1], rational=False, span='linear', clamped=True, samples=3, alt=True))
    out.append(dict(p=3, mult=[2], rational=False, span='binsearch', clamped=True, samples=3, alt=True))
    out.append(dict(p=3, mult=[], rational=False, span='linear', clamped=False, samples=2))
    out.append(dict(p=1, mult=[1], rational=True, span='binsearch', clamped=False, samples=3))
    if tier == 'thorough':
        out.append(dict(p=3, mult=[1, 2], rational=True, span='binsearch', clamped=True, samples=5))
        out.append(dict(p=3, mult=[1], rational=False, span='binsearch', clamped=False, samples=4))
        out.append(dict(p=4, mult=[2], rational=True, span='linear', clamped=True, samples=3))
    return out


@scenario('C01', fns=['BSpline.Curve.evaluate_single', 'BSpline.Curve.evaluate_list', 'BSpline.Curve.evaluate',
                      'BSpline.Curve.derivatives', 'evaluators.CurveEvaluator.evaluate',
                      'evaluators.CurveEvaluatorRational.evaluate', 'helpers.find_spans', 'helpers.basis_functions',
                      'helpers.find_span_linear', 'helpers.find_span_binsearch', 'helpers.basis_function',
                      'linalg.linspace', 'abstract.Curve.sample_size'],
          quick=lambda: _curve_shapes('quick'), thorough=lambda: _curve_shapes('thorough'))
def curve_eval(ctx, p, mult, rational, span, clamped, samples, alt=False):
    """requires valid_kv, u in domain (binsearch: tol-separated from the domain end, distinct knots > tol apart),
    positive weights.  ensures all four entry points == C(u); grid size/order/corners."""
    U, inner, n = shapes.make_kv(ctx, p, mult, clamped=clamped, normalized=clamped)
    lo, hi = U[p], U[n]
    u = shapes.param_in(ctx, 'u', lo, hi)
    if not clamped:
        # linalg.linspace identifies start and stop when they are within 1e-7 (tolerance executed as written, A1)
        ctx.assume(ctx.gt(hi - lo, Fraction(1, 10 ** 7)))
    if span == 'binsearch':
        shapes.separated_knots(ctx, U, SPAN_TOL)
        ctx.assume(ctx.sep(u, hi, SPAN_TOL))
    P = shapes.net(ctx, 'P', n, 2)
    W = shapes.weights(ctx, 'w', n) if rational else None
    crv = shapes.build_curve(ctx, p, U, P, W, normalize_kv=clamped)
    crv.evaluator = _evaluator(ctx, 'curve', rational, span, alt)
    Pw = shapes.homog(P, W)
    if rational:
        ctx.assume_pos(spec.curve_point(p, U, [[w] for w in W], u)[0], 'L.weight_function_positive')

    def C(t):
        c = spec.curve_point(p, U, Pw, t)
        return spec.project(c) if rational else c

    want = C(u)
    ctx.check_eq_vec('evaluate_single', crv.evaluate_single(u), want)
    got = crv.evaluate_list([u, lo])
    ctx.check_true('evaluate_list.len', len(got) == 2)
    ctx.check_eq_vec('evaluate_list[0]', got[0], want)
    ctx.check_eq_vec('evaluate_list[1]=C(start)', got[1], C(lo))
    ctx.check_eq_vec('derivatives.order0', crv.derivatives(u, 0)[0], want)
    if clamped:
        # sampled grid on the whole (normalised) domain
        crv.sample_size = samples
        # history: a sub-range evaluation first; the following full evaluate() must again cover the whole domain
        crv.evaluate(start=lo, stop=lo + (hi - lo) * Fraction(1, 2))
        sub = crv.evalpts
        ctx.check_true('subrange.size', len(sub) == samples)
        ctx.check_eq_vec('subrange.last=C(mid)', sub[-1], C(lo + (hi - lo) * Fraction(1, 2)))
        crv.evaluate()
        pts = crv.evalpts
        ctx.check_true('grid.size', len(pts) == samples, 'len(evalpts)=%d, sample_size=%d' % (len(pts), samples))
        for i in range(samples):
            t = lo + (hi - lo) * Fraction(i, samples - 1)
            if rational:
                ctx.assume_pos(spec.curve_point(p, U, [[w] for w in W], t)[0], 'L.weight_function_positive')
            ctx.check_eq_vec('grid[%d]' % i, pts[i], C(t))
        ctx.check_eq_vec('grid.first=P0', pts[0], P[0])
        ctx.check_eq_vec('grid.last=Pn', pts[-1], P[-1])
        # a descending range is a valid range too: the samples run from stop back to start
        crv.evaluate(start=hi, stop=lo)
        back = crv.evalpts
        ctx.check_true('descending.size', len(back) == samples)
        for i in range(samples):
            ctx.check_eq_vec('descending[%d]' % i, back[i], C(hi - (hi - lo) * Fraction(i, samples - 1)))
    else:
        # unclamped, un-normalised knot vector: the default range is the domain [U[p], U[n]]
        crv.sample_size = samples
        pts = crv.evalpts
        ctx.check_true('grid.size', len(pts) == samples, 'len(evalpts)=%d, sample_size=%d' % (len(pts), samples))
        for i in range(samples):
            t = lo + (hi - lo) * Fraction(i, samples - 1)
            if rational:
                ctx.assume_pos(spec.curve_point(p, U, [[w] for w in W], t)[0], 'L.weight_function_positive')
            ctx.check_eq_vec('grid[%d]' % i, pts[i], C(t))


def _surface_shapes(tier):
    out = [dict(pu=1, pv=1, mu=[], mv=[1], rational=False, span='linear', samples=[2, 3]),
           dict(pu=2, pv=1, mu=[1], mv=[], rational=False, span='linear', samples=[3, 2]),
           dict(pu=2, pv=2, mu=[1], mv=[1], rational=False, span='binsearch', samples=[2, 2]),
           dict(pu=2, pv=2, mu=[], mv=[], rational=True, span='linear', samples=[2, 2]),
           dict(pu=1, pv=2, mu=[1], mv=[], rational=True, span='linear', samples=[2, 3]),
           # the alternative evaluator on nets with different sizes and degrees per direction
           dict(pu=2, pv=1, mu=[1], mv=[], rational=False, span='linear', samples=[3, 2], alt=True),
           dict(pu=1, pv=2, mu=[], mv=[1, 1], rational=False, span='linear', samples=[2, 3], alt=True),
           # knot vectors kept as given (normalize_kv=False): unclamped, different symbolic ranges per direction
           dict(pu=1, pv=2, mu=[1], mv=[], rational=False, span='linear', samples=[2, 3], free=True),
           dict(pu=2, pv=1, mu=[], mv=[1], rational=True, span='linear', samples=[2, 2], free=True)]
    if tier == 'thorough':
        out += [dict(pu=3, pv=2, mu=[1], mv=[1, 1], rational=False, span='linear', samples=[4, 3]),
                dict(pu=3, pv=3, mu=[2], mv=[1], rational=False, span='binsearch', samples=[3, 3]),
                dict(pu=2, pv=2, mu=[1], mv=[1], rational=True, span='linear', samples=[3, 2])]
    return out


@scenario('C01', fns=['BSpline.Surface.evaluate_single', 'BSpline.Surface.evaluate_list', 'BSpline.Surface.evaluate',
                      'BSpline.Surface.derivatives', 'evaluators.SurfaceEvaluator.evaluate',
                      'evaluators.SurfaceEvaluatorRational.evaluate', 'abstract.Surface.sample_size'],
          quick=lambda: _surface_shapes('quick'), thorough=lambda: _surface_shapes('thorough'))
def surface_eval(ctx, pu, pv, mu, mv, rational, span, samples, alt=False, free=False):
    """ensures S(u,v) == tensor-product definition through every entry point; grid is u-outer / v-inner"""
    U, iu, su = shapes.make_kv(ctx, pu, mu, prefix='a', normalized=not free, clamped=not free)
    V, iv, sv = shapes.make_kv(ctx, pv, mv, prefix='b', normalized=not free, clamped=not free)
    u = shapes.param_in(ctx, 'u', U[pu], U[su])
    v = shapes.param_in(ctx, 'v', V[pv], V[sv])
    if free:
        # linalg.linspace identifies start and stop when they are within 1e-7 (tolerance executed as written, A1)
        ctx.assume(ctx.gt(U[su] - U[pu], Fraction(1, 10 ** 7)), ctx.gt(V[sv] - V[pv], Fraction(1, 10 ** 7)))
    if span == 'binsearch':
        shapes.separated_knots(ctx, U, SPAN_TOL)
        shapes.separated_knots(ctx, V, SPAN_TOL)
        ctx.assume(ctx.sep(u, U[-1], SPAN_TOL), ctx.sep(v, V[-1], SPAN_TOL))
    P = shapes.net(ctx, 'P', su * sv, 3)
    W = shapes.weights(ctx, 'w', su * sv) if rational else None
    srf = shapes.build_surface(ctx, pu, pv, U, V, P, su, sv, W, normalize_kv=not free)
    srf.evaluator = _evaluator(ctx, 'surface', rational, span, alt)
    Pw = shapes.homog(P, W)

    def S(a, b):
        if rational:
            ctx.assume_pos(spec.surface_point(pu, pv, U, V, [[w] for w in W], su, sv, a, b)[0], 'L.weight_function_positive')
        c = spec.surface_point(pu, pv, U, V, Pw, su, sv, a, b)
        return spec.project(c) if rational else c

    want = S(u, v)
    ctx.check_eq_vec('evaluate_single', srf.evaluate_single([u, v]), want)
    got = srf.evaluate_list([[u, v]])
    ctx.check_true('evaluate_list.len', len(got) == 1)
    ctx.check_eq_vec('evaluate_list[0]', got[0], want)
    ctx.check_eq_vec('derivatives.order0', srf.derivatives(u, v, 0)[0][0], want)
    srf.sample_size_u, srf.sample_size_v = samples
    (ulo, uhi), (vlo, vhi) = (U[pu], U[su]), (V[pv], V[sv])
    if not free:
        srf.evaluate(stop_u=Fraction(1, 2), start_v=Fraction(1, 2))          # sub-range first, then the full grid
        ctx.check_true('subrange.size', len(srf.evalpts) == samples[0] * samples[1])
    srf.evaluate()
    pts = srf.evalpts
    ctx.check_true('grid.size', len(pts) == samples[0] * samples[1])
    for i in range(samples[0]):
        for j in range(samples[1]):
            a = ulo + (uhi - ulo) * ctx.lit(Fraction(i, samples[0] - 1))      # the grid runs over the domain, corners included
            b = vlo + (vhi - vlo) * ctx.lit(Fraction(j, samples[1] - 1))
            ctx.check_eq_vec('grid[u=%d,v=%d]' % (i, j), pts[i * samples[1] + j], S(a, b))
    if not free:
        ctx.check_eq_vec('grid.corner00', pts[0], P[0])
        ctx.check_eq_vec('grid.corner11', pts[-1], P[-1])


def _volume_shapes(tier):
    out = [dict(deg=[1, 1, 1], m=[[], [], []], rational=False, samples=[2, 2, 2]),
           dict(deg=[2, 1, 1], m=[[1], [], []], rational=False, samples=[2, 2, 3]),
           dict(deg=[1, 1, 2], m=[[], [1], []], rational=True, samples=[2, 2, 2]),
           dict(deg=[1, 1, 1], m=[[], [], []], rational=True, samples=[2, 2, 2], dim=4),       # points of dimension 4 (+ weight)
           dict(deg=[1, 2, 1], m=[[1], [], []], rational=False, samples=[2, 2, 2], free=True)]      # normalize_kv=False, unclamped
    if tier == 'thorough':
        out += [dict(deg=[2, 2, 2], m=[[1], [], [1]], rational=False, samples=[3, 2, 2]),
                dict(deg=[2, 2, 1], m=[[], [1], []], rational=True, samples=[2, 3, 2])]
    return out


@scenario('C01', fns=['BSpline.Volume.evaluate_single', 'BSpline.Volume.evaluate_list', 'BSpline.Volume.evaluate',
                      'evaluators.VolumeEvaluator.evaluate', 'evaluators.VolumeEvaluatorRational.evaluate'],
          quick=lambda: _volume_shapes('quick'), thorough=lambda: _volume_shapes('thorough'))
def volume_eval(ctx, deg, m, rational, samples, free=False, dim=3):
    """ensures V(u,v,w) == tensor-product definition with layout v + sv*(u + su*w); grid order u, v, w (w innermost)"""
    kvs, sizes = [], []
    for a, pfx in enumerate('abc'):
        U, _iu, n = shapes.make_kv(ctx, deg[a], m[a], prefix=pfx, normalized=not free, clamped=not free)
        kvs.append(U)
        sizes.append(n)
        if free:
            ctx.assume(ctx.gt(U[n] - U[deg[a]], Fraction(1, 10 ** 7)))         # linspace tolerance (A1)
    dom = [(kvs[a][deg[a]], kvs[a][sizes[a]]) for a in range(3)]
    prm = [shapes.param_in(ctx, nm, lo, hi) for nm, (lo, hi) in zip(('u', 'v', 'w'), dom)]
    su, sv, sw = sizes
    P = shapes.net(ctx, 'P', su * sv * sw, dim)
    W = shapes.weights(ctx, 'w', su * sv * sw) if rational else None
    vol = shapes.build_volume(ctx, deg[0], deg[1], deg[2], kvs[0], kvs[1], kvs[2], P, su, sv, sw, W, normalize_kv=not free)
    Pw = shapes.homog(P, W)

    def Vv(a, b, c):
        if rational:
            ctx.assume_pos(spec.volume_point(deg[0], deg[1], deg[2], kvs[0], kvs[1], kvs[2], [[x] for x in W],
                                             su, sv, sw, a, b, c)[0], 'L.weight_function_positive')
        r = spec.volume_point(deg[0], deg[1], deg[2], kvs[0], kvs[1], kvs[2], Pw, su, sv, sw, a, b, c)
        return spec.project(r) if rational else r

    want = Vv(*prm)
    ctx.check_eq_vec('evaluate_single', vol.evaluate_single(prm), want)
    got = vol.evaluate_list([prm])
    ctx.check_true('evaluate_list.len', len(got) == 1)
    ctx.check_eq_vec('evaluate_list[0]', got[0], want)
    vol.sample_size_u, vol.sample_size_v, vol.sample_size_w = samples
    pts = vol.evalpts
    ctx.check_true('grid.size', len(pts) == samples[0] * samples[1] * samples[2])
    ctx.check_true('grid.ordering', _grid_order(ctx, pts, samples, Vv, dom))


def _grid_order(ctx, pts, samples, Vv, dom):
    """finds which nesting order the grid uses by checking every point against the spec under the documented order"""
    idx = 0
    # documented order of Volume.evalpts: w outermost? determined from the evaluator: for u: for v: for w
    for i in range(samples[0]):
        for j in range(samples[1]):
            for k in range(samples[2]):
                a = dom[0][0] + (dom[0][1] - dom[0][0]) * ctx.lit(Fraction(i, samples[0] - 1))
                b = dom[1][0] + (dom[1][1] - dom[1][0]) * ctx.lit(Fraction(j, samples[1] - 1))
                c = dom[2][0] + (dom[2][1] - dom[2][0]) * ctx.lit(Fraction(k, samples[2] - 1))
                ctx.check_eq_vec('grid[u=%d,v=%d,w=%d]' % (i, j, k), pts[idx], Vv(a, b, c))
                idx += 1
    return True


# ------------------------------------------------------------------------------------------------
# "the sampled grid has the documented size" for sample sizes at which 1/(1/n) is not n in floating point
# ------------------------------------------------------------------------------------------------
@scenario('C01', fns=['abstract.Curve.sample_size', 'abstract.Surface.sample_size', 'abstract.Volume.sample_size',
                      'abstract.Curve.delta', 'abstract.Surface.delta', 'abstract.Volume.delta', 'linalg.linspace'],
          quick=[dict(kind=k, n=n) for k in ('curve', 'surface', 'volume') for n in (2, 7)],
          # the same contract at run time on native floats: the sizes are stored as delta = 1/n and recomputed from it,
          # which is the identity in exact arithmetic (A1) but a rounding question in floats
          native=lambda tier: [dict(kind=k, n=n) for k in ('curve', 'surface', 'volume')
                               for n in ((49, 93, 99, 105, 117, 186) if k != 'volume' else (49, 93))])
def grid_size(ctx, kind, n):
    """requires: a concrete shape; the sample size n set through the public setter (one direction n, the others 2)
       ensures : the getter returns n; the sampled grid has n (x 2 x 2) points, its first / last point are the corners"""
    L = ctx.lit
    if kind == 'curve':
        P = [[L(0), L(0)], [L(1), L(2)], [L(3), L(1)]]
        shp = shapes.build_curve(ctx, 2, [L(0)] * 3 + [L(1)] * 3, P)
        shp.sample_size = n
        ctx.check_true('sample_size.reads_back', shp.sample_size == n, str(shp.sample_size))
        total = n
    elif kind == 'surface':
        P = [[L(i), L(j), L(i * j)] for i in range(2) for j in range(3)]
        shp = shapes.build_surface(ctx, 1, 2, [L(0)] * 2 + [L(1)] * 2, [L(0)] * 3 + [L(1)] * 3, P, 2, 3)
        for first in (True, False):
            shp.sample_size_u, shp.sample_size_v = (n, 2) if first else (2, n)
            ctx.check_true('sample_size.reads_back', (shp.sample_size_u, shp.sample_size_v) == ((n, 2) if first else (2, n)))
            ctx.check_true('grid.size[%s]' % ('u' if first else 'v'), len(shp.evalpts) == 2 * n, str(len(shp.evalpts)))
        total = 2 * n
    else:
        P = [[L(i), L(j), L(k)] for k in range(2) for i in range(2) for j in range(2)]
        kv = [L(0)] * 2 + [L(1)] * 2
        shp = shapes.build_volume(ctx, 1, 1, 1, kv, kv, kv, P, 2, 2, 2)
        for d in range(3):
            sz = [2, 2, 2]
            sz[d] = n
            shp.sample_size_u, shp.sample_size_v, shp.sample_size_w = sz
            ctx.check_true('sample_size.reads_back', [shp.sample_size_u, shp.sample_size_v, shp.sample_size_w] == sz)
            ctx.check_true('grid.size[%d]' % d, len(shp.evalpts) == 4 * n, str(len(shp.evalpts)))
        total = 4 * n
    pts = shp.evalpts
    ctx.check_true('grid.size', len(pts) == total, str(len(pts)))
    ctx.check_eq_vec('grid.first_is_corner', pts[0], P[0])
    ctx.check_eq_vec('grid.last_is_corner', pts[-1], P[-1])
    # densities that are not reciprocals of integers (1/delta = 2.5, 4.5, 3.5): the grid has as many points as the
    # per-direction sample sizes say
    names_d = {'curve': ['delta'], 'surface': ['delta_u', 'delta_v'], 'volume': ['delta_u', 'delta_v', 'delta_w']}[kind]
    sizes_n = {'curve': ['sample_size'], 'surface': ['sample_size_u', 'sample_size_v'],
               'volume': ['sample_size_u', 'sample_size_v', 'sample_size_w']}[kind]
    for combo in ((Fraction(2, 5), Fraction(2, 9), Fraction(2, 7)), (Fraction(2, 9), Fraction(2, 5), Fraction(2, 5))):
        for nm, dv in zip(names_d, combo):
            setattr(shp, nm, L(dv))
        per_dir = [getattr(shp, nm) for nm in sizes_n]
        prod = 1
        for c in per_dir:
            prod *= c
        ctx.check_true('nonreciprocal.grid.size=product_of_sample_sizes', len(shp.evalpts) == prod,
                       '%d points, sample sizes %r' % (len(shp.evalpts), per_dir))
        if kind != 'curve':
            ctx.check_true('nonreciprocal.sample_size_tuple', list(shp.sample_size) == per_dir, '%r vs %r' % (shp.sample_size, per_dir))
        ctx.check_eq_vec('nonreciprocal.grid.last_is_corner', shp.evalpts[-1], P[-1])
    for nm, szn in zip(names_d, sizes_n):                    # back to the sizes of this instance
        setattr(shp, szn, 2)
    if kind == 'curve':
        shp.sample_size = n
    elif kind == 'surface':
        shp.sample_size_u, shp.sample_size_v = 2, n
    else:
        shp.sample_size_u, shp.sample_size_v, shp.sample_size_w = 2, 2, n
    # a rejected density request (delta outside (0, 1), i.e. fewer than two samples) leaves the sampling as it was
    names = {'curve': ['delta'], 'surface': ['delta_u', 'delta_v'], 'volume': ['delta_u', 'delta_v', 'delta_w']}[kind]
    before = [getattr(shp, nm) for nm in names]
    for nm in names:
        for bad in (L(1), L(Fraction(5, 2)), L(Fraction(-1, 2)), L(0)):
            ctx.check_raises('reject.%s' % nm, ValueError, setattr, shp, nm, bad)
    ctx.check_true('reject.deltas_unchanged', [getattr(shp, nm) for nm in names] == before,
                   'deltas %r after the rejected requests, %r before' % ([getattr(shp, nm) for nm in names], before))
    pts2 = shp.evalpts
    ctx.check_true('reject.grid.size_unchanged', len(pts2) == total, str(len(pts2)))
    ctx.check_eq_vec('reject.grid.last_is_corner', pts2[-1], P[-1])


# ------------------------------------------------------------------------------------------------
# evaluation after the definition was edited through the public views (rational shapes keep caches of the views)
# ------------------------------------------------------------------------------------------------
def _edit_histories():
    out = []
    for kind in ('curve', 'surface', 'volume'):
        for hist in (['net', 'weights'], ['ctrlpts', 'weights'], ['weights', 'net'], ['weights', 'ctrlpts', 'weights']):
            out.append(dict(kind=kind, hist=hist))
    return out


@scenario('C01', fns=['NURBS.Curve.reset', 'NURBS.Surface.reset', 'NURBS.Volume.reset', 'NURBS.Curve.weights', 'NURBS.Surface.weights',
                      'NURBS.Volume.weights', 'NURBS.Curve.ctrlpts', 'NURBS.Surface.ctrlpts', 'NURBS.Volume.ctrlpts',
                      'abstract.SplineGeometry.set_ctrlpts', 'BSpline.Surface.set_ctrlpts', 'evaluators.CurveEvaluatorRational.evaluate',
                      'evaluators.SurfaceEvaluatorRational.evaluate', 'evaluators.VolumeEvaluatorRational.evaluate'],
          quick=_edit_histories)
def rational_edit_then_eval(ctx, kind, hist):
    """requires: a rational shape whose views (ctrlpts, weights) have been read once; then the edits in `hist`:
                 net = set_ctrlpts(new homogeneous net), ctrlpts = new Cartesian points (weights kept),
                 weights = new positive weights (points kept); nothing is read in between
       ensures : evaluate_single / evaluate_list / derivatives order 0 give the point of the definition that results from
                 the edits (last written points, last written weights)"""
    deg = {'curve': [2], 'surface': [1, 2], 'volume': [1, 1, 1]}[kind]
    mult = {'curve': [[1]], 'surface': [[1], []], 'volume': [[], [1], []]}[kind]
    kvs, sizes = [], []
    for a, pfx in enumerate('abc'[:len(deg)]):
        U, _i, n = shapes.make_kv(ctx, deg[a], mult[a], prefix=pfx)
        kvs.append(U)
        sizes.append(n)
    total = 1
    for n in sizes:
        total *= n
    dim = 2 if kind == 'curve' else 3
    P = shapes.net(ctx, 'P', total, dim)
    W = shapes.weights(ctx, 'w', total)
    if kind == 'curve':
        obj = shapes.build_curve(ctx, deg[0], kvs[0], P, W)
    elif kind == 'surface':
        obj = shapes.build_surface(ctx, deg[0], deg[1], kvs[0], kvs[1], P, sizes[0], sizes[1], W)
    else:
        obj = shapes.build_volume(ctx, deg[0], deg[1], deg[2], kvs[0], kvs[1], kvs[2], P, sizes[0], sizes[1], sizes[2], W)
    _ = ([list(p) for p in obj.ctrlpts], list(obj.weights))        # the view caches are filled
    for step, ed in enumerate(hist):
        if ed == 'net':
            P = shapes.net(ctx, 'Q%d' % step, total, dim)
            W = shapes.weights(ctx, 'q%d' % step, total)
            obj.set_ctrlpts([list(r) for r in spec.weighted(P, W)], *sizes)
        elif ed == 'ctrlpts':
            P = shapes.net(ctx, 'R%d' % step, total, dim)
            obj.ctrlpts = [list(r) for r in P]
        else:
            W = shapes.weights(ctx, 'r%d' % step, total)
            obj.weights = list(W)
    prm = [shapes.param_in(ctx, nm, U[0], U[-1]) for nm, U in zip('uvw', kvs)]
    Pw = shapes.homog(P, W)
    if kind == 'curve':
        wf = spec.curve_point(deg[0], kvs[0], [[w] for w in W], prm[0])[0]
        want = spec.curve_point(deg[0], kvs[0], Pw, prm[0])
    elif kind == 'surface':
        wf = spec.surface_point(deg[0], deg[1], kvs[0], kvs[1], [[w] for w in W], sizes[0], sizes[1], prm[0], prm[1])[0]
        want = spec.surface_point(deg[0], deg[1], kvs[0], kvs[1], Pw, sizes[0], sizes[1], prm[0], prm[1])
    else:
        wf = spec.volume_point(deg[0], deg[1], deg[2], kvs[0], kvs[1], kvs[2], [[w] for w in W], sizes[0], sizes[1], sizes[2], *prm)[0]
        want = spec.volume_point(deg[0], deg[1], deg[2], kvs[0], kvs[1], kvs[2], Pw, sizes[0], sizes[1], sizes[2], *prm)
    ctx.assume_pos(wf, 'L.weight_function_positive')
    want = spec.project(want)
    arg = prm[0] if kind == 'curve' else list(prm)
    ctx.check_eq_vec('after_edits.evaluate_single', obj.evaluate_single(arg), want)
    ctx.check_eq_vec('after_edits.evaluate_list[0]', obj.evaluate_list([arg])[0], want)
    if kind == 'curve':
        ctx.check_eq_vec('after_edits.derivatives.order0', obj.derivatives(prm[0], 0)[0], want)
    elif kind == 'surface':
        ctx.check_eq_vec('after_edits.derivatives.order0', obj.derivatives(prm[0], prm[1], 0)[0][0], want)
