"""scratch draft"""
from fractions import Fraction

from .api import scenario
from . import shapes, spec, assumptions

assumptions.PROPS['C11'] = {'level': 'other', 'assume': ['A1', 'A2', 'A4', 'A5', 'A6', 'A7']}


def _data(ctx, n, dim):
    return shapes.net(ctx, 'Q', n, dim)


@scenario('C11', fns=['fitting.interpolate_curve'],
          quick=lambda: [dict(n=n, p=p, centripetal=c) for n in (3, 4, 5) for p in (1, 2, 3) if p < n for c in (False, True)])
def interp_curve(ctx, n, p, centripetal):
    fit = ctx.geomdl('fitting')
    Q = _data(ctx, n, 2)
    crv = fit.interpolate_curve([list(q) for q in Q], p, centripetal=centripetal)
    ctx.check_true('degree', crv.degree == p)
    uk = fit.compute_params_curve([list(q) for q in Q], centripetal)
    for i in range(n):
        ctx.check_eq_vec('through[%d]' % i, crv.evaluate_single(uk[i]), Q[i])
