"""C11 Fitted curves and surfaces meet interpolation and least-squares conditions (bounded tier).

Contracts on the real geomdl.fitting functions; nothing is stubbed: the collocation / normal-equation systems are
solved by the real linalg.lu_solve / lu_decomposition / forward_substitution / backward_substitution in exact
arithmetic, so "the LU solver returns the solution for these spline systems" is part of every instance.

Postconditions (from the property statement):
  params     compute_params_curve (Eqs 9.4-9.6): uk[0] = 0, uk[-1] = 1, uk[i] = sum_{j<=i} d_j / sum_j d_j with
             d_j = |Q_j - Q_j-1| (chord length) or sqrt|Q_j - Q_j-1| (centripetal); strictly increasing when
             consecutive points are distinct.  compute_params_surface: the per-row / per-column averages of those.
  knots      compute_knot_vector (Eq 9.8) / compute_knot_vector2 (Eqs 9.68-9.69): documented length, clamped,
             non-decreasing, the closed forms, for *symbolic* increasing parameters.
  interp     interpolate_curve / interpolate_surface: requested degree(s), one control point per data point, the knot
             vector of Eq 9.8, and C(uk[i]) = Q[i] / S(uk[i], vl[j]) = Q[i][j] through the real evaluator, where uk, vl
             are what compute_params_curve / compute_params_surface return for the same data.
  approx     approximate_curve: requested degree and control point count, end control points = end data points,
             C(0) = Q[0], C(1) = Q[-1], and the interior control points satisfy the normal equations
             (N^T N) P = R of The NURBS Book Eqs 9.63-9.67, with N and R rebuilt here from spec.halfopen_basis
             (textbook Cox-de Boor, independent of helpers.basis_function_one) at the parameters and on the knot vector
             the function used.  A solution of the normal equations minimises the summed squared distance (convexity,
             assumption A7).  approximate_surface: requested degrees / sizes and the four corner data points are
             interpolated (corner control points and S at the domain corners).

What is symbolic.  Data points: `sym` lists the points whose first coordinate is a symbol (any real); every other
coordinate is a constant.  The constants come from one of three tables:
  'net'      distinct small rationals per point in the style of shapes.net (chord lengths irrational -> math.sqrt yields algebraic atoms,
             also for constant radicands: sqrt(13/4) is an exact algebraic constant, never a float),
  'lattice'  a polyline whose steps are rational unit vectors times perfect squares, so chord lengths *and* their
             square roots (centripetal) are exact rationals for the concrete points,
  'uniform'  a zigzag of equal-length steps: uniform parameters, so averaged knots coincide with parameters.
Surface grids: x_u, y_v unevenly spaced and z = 4/3 x + 3/4 y make every row / column chord and its square root
rational; `bump` lifts the listed grid points off that plane by a constant (algebraic chord lengths), `sym` gives
the listed grid points a symbolic z.
With sym = all points the instance holds for every real value of one coordinate of every data point (the other
coordinates fixed); with fewer symbols the remaining points are concrete.  "Consecutive points are distinct" is assumed
explicitly wherever the constants do not already imply it (_assume_distinct).
Chord lengths that involve a symbol are sqrt atoms s with s >= 0, s*s = radicand (A4); centripetal = atom of an atom.
Parameters / knots are rational functions of those atoms, the branch conditions of span search and of
basis_function_one (uk[i] against averaged knots) are decided by z3 over the reals with those atom definitions.
`params_curve` additionally has fully symbolic points (all coordinates) with the explicit precondition "consecutive
points distinct".

Bounds.  Symbolic data: 3-5 points (interpolation), 5-7 points (approximation), 3x3 .. 4x4 / 5x5 .. 5x6 grids, degree
1-3, every admissible control point count for 5-7 data points; the reach is set by the pivots of the real LU
factorisation: each `/ u[i][i]` makes the solver show a polynomial in the sqrt atoms non-zero (the total-positivity
fact about collocation matrices, DESIGN.md section 8), which z3 decides for the listed shapes and not e.g. for 5
points / degree 3 with a symbolic middle point.  Concrete exact data: up to 12 points (quick), 40 points per curve and
7x7 grids (thorough).  Nothing is claimed outside these shapes.
"""
from fractions import Fraction

from .api import scenario
from . import spec, assumptions

assumptions.PROPS['C11'] = {'level': 'other', 'assume': ['A1', 'A2', 'A4', 'A5', 'A6', 'A7']}

F = Fraction

# rational unit vectors (2-D, 3-D) and perfect-square step lengths
_DIR2 = [(F(3, 5), F(4, 5)), (F(12, 13), F(5, 13)), (F(4, 5), F(-3, 5)), (F(5, 13), F(12, 13)), (F(1), F(0)),
         (F(8, 17), F(15, 17)), (F(15, 17), F(-8, 17))]
_DIR3 = [(F(1, 3), F(2, 3), F(2, 3)), (F(6, 7), F(2, 7), F(-3, 7)), (F(2, 3), F(-1, 3), F(2, 3)), (F(2, 7), F(3, 7), F(6, 7)),
         (F(4, 9), F(4, 9), F(7, 9)), (F(8, 9), F(1, 9), F(-4, 9)), (F(0), F(0), F(1))]
_LEN = [F(4), F(1), F(9), F(1, 4), F(9, 4), F(1), F(4), F(16)]


def _uniform(n, dim):
    """zigzag of equal-length rational steps: both parametrisations are exactly uniform, so for odd degree every
    averaged interior knot coincides with a parameter (find_span / basis_function at a knot)"""
    a = (F(3), F(4), F(0)) if dim == 3 else (F(3), F(4))
    b = (F(4), F(-3), F(0)) if dim == 3 else (F(4), F(-3))
    pt = [F(0)] * dim
    out = [list(pt)]
    for i in range(1, n):
        pt = [x + y for x, y in zip(pt, a if i % 2 else b)]
        out.append(list(pt))
    return out


def _lattice(n, dim, shift=0):
    """n concrete points; consecutive distances are perfect squares of rationals"""
    dirs = _DIR2 if dim == 2 else _DIR3
    pt = [F(1, 2) * (d + 1) for d in range(dim)]
    out = [list(pt)]
    for i in range(1, n):
        dv = dirs[(i - 1 + shift) % len(dirs)]
        ln = _LEN[(i - 1 + 3 * shift) % len(_LEN)]
        pt = [a + ln * b for a, b in zip(pt, dv)]
        out.append(list(pt))
    return out


def _revisit(n, dim):
    """n concrete points, every step of length 5, whose path comes back to an earlier location (index 1 == index 3 == index 7)"""
    steps = [(3, 4), (3, -4), (-3, 4), (-3, 4), (3, 4), (3, -4), (-3, -4), (-3, -4), (3, 4)]
    pt = [F(0)] * dim
    out = [list(pt)]
    for i in range(1, n):
        dx, dy = steps[(i - 1) % len(steps)]
        pt = [pt[0] + dx, pt[1] + dy] + pt[2:]
        out.append(list(pt))
    return out


def _points(ctx, n, dim, sym, table, prefix='Q'):
    """data points (see module docstring): sym = 'all' | list of indices with a symbolic first coordinate"""
    if table == 'lattice':
        base = [[ctx.lit(c) for c in pt] for pt in _lattice(n, dim)]
    elif table == 'uniform':
        base = [[ctx.lit(c) for c in pt] for pt in _uniform(n, dim)]
    elif table == 'revisit':
        base = [[ctx.lit(c) for c in pt] for pt in _revisit(n, dim)]
    else:
        base = [[ctx.lit(F(3 * i * i - 7 * i, 4))] + [ctx.lit(F((i + 1) * (d + 2) + d * d, 1 + d)) for d in range(1, dim)]
                for i in range(n)]
    idx = range(n) if sym == 'all' else sym
    for i in idx:
        base[i][0] = ctx.num('%s%d' % (prefix, i))
    _assume_distinct(ctx, base)
    return base


def _assume_distinct(ctx, pts):
    """precondition of the property: consecutive data points are distinct (a plain fact when two constants differ)"""
    for a, b in zip(pts, pts[1:]):
        if any(ctx.is_const(x) and ctx.is_const(y) and ctx.as_fraction(x) != ctx.as_fraction(y) for x, y in zip(a, b)):
            continue
        ctx.assume(ctx.any(*[ctx.ne(x, y) for x, y in zip(a, b)]))


def _copy(pts):
    return [list(p) for p in pts]


def _sqrt(ctx, x):
    """math.sqrt as the engine models it (A4: exact root, else an algebraic atom s >= 0, s*s == x) / native sqrt"""
    if ctx.mode == 'sym':
        from symx import qnum
        return qnum.vq_sqrt(x)
    import math
    return math.sqrt(x)


def _total(xs):
    t = 0
    for x in xs:
        t = t + x
    return t


def params_spec(ctx, pts, centripetal):
    """Eqs 9.4-9.6 written from the book"""
    n = len(pts)
    ds = []
    for i in range(1, n):
        d = _sqrt(ctx, _total((a - b) * (a - b) for a, b in zip(pts[i], pts[i - 1])))
        ds.append(_sqrt(ctx, d) if centripetal else d)
    tot = _total(ds)
    return [_total(ds[:i]) / tot for i in range(n)]


def _check_params(ctx, tag, uk, n):
    ctx.check_true(tag + '.len', len(uk) == n, 'len=%d, expected %d' % (len(uk), n))
    ctx.check_eq(tag + '[0]=0', uk[0], 0)
    ctx.check_eq(tag + '[-1]=1', uk[-1], 1)
    for i in range(n - 1):
        ctx.check('%s.increasing[%d]' % (tag, i), ctx.lt(uk[i], uk[i + 1]))


# ------------------------------------------------------------------------------------------------
# parameters
# ------------------------------------------------------------------------------------------------
def _pc_shapes(tier):
    out = []
    for c in (False, True):
        for n in (3, 4, 5):
            out.append(dict(n=n, dim=2, centripetal=c, sym='all', table='net'))
        out.append(dict(n=6, dim=2, centripetal=c, sym=[0, 5], table='net' if not c else 'lattice'))
        out.append(dict(n=4, dim=3, centripetal=c, sym='all', table='net'))
        out.append(dict(n=6, dim=3, centripetal=c, sym=[2], table='lattice'))
        out.append(dict(n=3, dim=2, centripetal=c, sym='free', table='net'))
        out.append(dict(n=12, dim=2, centripetal=c, sym=[], table='lattice'))
    if tier == 'thorough':
        for c in (False, True):
            out.append(dict(n=3, dim=3, centripetal=c, sym='free', table='net'))
            out.append(dict(n=8, dim=3, centripetal=c, sym=[0, 7], table='lattice'))
            out.append(dict(n=40, dim=3, centripetal=c, sym=[], table='lattice'))
        out.append(dict(n=6, dim=2, centripetal=False, sym='all', table='net'))
    return out


@scenario('C11', fns=['fitting.compute_params_curve', 'linalg.point_distance', 'linalg.vector_magnitude'],
          quick=lambda: _pc_shapes('quick'), thorough=lambda: _pc_shapes('thorough'))
def params_curve(ctx, n, dim, centripetal, sym, table):
    """requires: consecutive points distinct (sym='free': every coordinate symbolic and the precondition assumed;
                 otherwise implied by the distinct constants)
       ensures : Eqs 9.4-9.6; uk[0] = 0, uk[-1] = 1, strictly increasing"""
    fit = ctx.geomdl('fitting')
    if sym == 'free':
        Q = [[ctx.num('Q%d_%d' % (i, d)) for d in range(dim)] for i in range(n)]
        _assume_distinct(ctx, Q)
    else:
        Q = _points(ctx, n, dim, sym, table)
    uk = fit.compute_params_curve(_copy(Q), centripetal)
    _check_params(ctx, 'uk', uk, n)
    ctx.check_eq_vec('uk=Eq9.5/9.6', uk, params_spec(ctx, Q, centripetal))
    ctx.check_eq_vec('default=chord_length', fit.compute_params_curve(_copy(Q)), params_spec(ctx, Q, False))
    ctx.check_eq_vec('tuple_input', fit.compute_params_curve(tuple(tuple(q) for q in Q), centripetal), uk)
    ctx.check_raises('non_sequence_rejected', TypeError, fit.compute_params_curve, dict(enumerate(_copy(Q))), centripetal)


def _grid(ctx, su, sv, sym, bump=()):
    """data grid Q[v + sv*u], dim 3: x_u, y_v unevenly spaced, z = 4/3 x + 3/4 y, so every row / column chord of the
    base grid and its square root are rational; the points listed in `bump` are lifted off the plane by a constant (their chords become
    algebraic constants), the points listed in `sym` get a symbolic z"""
    xs, ys = [F(0)], [F(1)]
    for k in (2, 1, 3, F(3, 2), 2, F(1, 2)):        # chord along u = 5/3 dx = k*k, along v = 5/4 dy = k*k
        xs.append(xs[-1] + F(3, 5) * k * k)
        ys.append(ys[-1] + F(4, 5) * ((k + 1) % 3 + F(1, 2)) ** 2)
    xs, ys = xs[:su], ys[:sv]
    pts = []
    for u in range(su):
        for v in range(sv):
            z = F(4, 3) * xs[u] + F(3, 4) * ys[v]
            if [u, v] in [list(b) for b in bump]:
                z = z + 1 + F(u + 2 * v, 3)
            pts.append([ctx.lit(xs[u]), ctx.lit(ys[v]), ctx.lit(z)])
    for (u, v) in sym:
        pts[v + sv * u][2] = ctx.num('Q%d_%d' % (u, v))
    for u in range(su):
        _assume_distinct(ctx, [pts[v + sv * u] for v in range(sv)])
    for v in range(sv):
        _assume_distinct(ctx, [pts[v + sv * u] for u in range(su)])
    return pts


def _ps_shapes(tier):
    out = []
    for c in (False, True):
        out += [dict(su=3, sv=3, centripetal=c, sym=[(1, 1)], bump=[]),
                dict(su=4, sv=4, centripetal=c, sym=[(0, 0)], bump=[(2, 2)]),
                dict(su=4, sv=3, centripetal=c, sym=[(0, 1), (3, 2)], bump=[])]
    out.append(dict(su=5, sv=5, centripetal=False, sym=[], bump=[(1, 1), (3, 2)]))
    out.append(dict(su=5, sv=6, centripetal=True, sym=[], bump=[]))
    return out


@scenario('C11', fns=['fitting.compute_params_surface', 'fitting.compute_params_curve'],
          quick=lambda: _ps_shapes('quick'))
def params_surface(ctx, su, sv, centripetal, sym, bump):
    """ensures: uk[u] = mean over the sv rows of the row's curve parameter, vl[v] = mean over the su columns
                (The NURBS Book pp.366-367); both start at 0, end at 1 and increase strictly"""
    fit = ctx.geomdl('fitting')
    Q = _grid(ctx, su, sv, sym, bump)
    uk, vl = fit.compute_params_surface(_copy(Q), su, sv, centripetal)
    _check_params(ctx, 'uk', uk, su)
    _check_params(ctx, 'vl', vl, sv)
    rows = [params_spec(ctx, [Q[v + sv * u] for u in range(su)], centripetal) for v in range(sv)]
    cols = [params_spec(ctx, [Q[v + sv * u] for v in range(sv)], centripetal) for u in range(su)]
    ctx.check_eq_vec('uk=row_average', uk, [_total(r[u] for r in rows) / sv for u in range(su)])
    ctx.check_eq_vec('vl=column_average', vl, [_total(c[v] for c in cols) / su for v in range(sv)])


# ------------------------------------------------------------------------------------------------
# knot vectors
# ------------------------------------------------------------------------------------------------
def _uk(ctx, n):
    """symbolic parameters 0 = uk[0] < uk[1] < ... < uk[n-1] = 1"""
    uk = [ctx.lit(0)] + [ctx.num('t%d' % i) for i in range(1, n - 1)] + [ctx.lit(1)]
    ctx.assume_sorted(uk, strict=True)
    return uk


def _check_kv(ctx, tag, kv, p, ncp):
    ctx.check_true(tag + '.len', len(kv) == ncp + p + 1, 'len=%d, expected %d' % (len(kv), ncp + p + 1))
    ctx.check_eq_vec(tag + '.clamped_start', kv[:p + 1], [0] * (p + 1))
    ctx.check_eq_vec(tag + '.clamped_end', kv[-(p + 1):], [1] * (p + 1))
    for i in range(len(kv) - 1):
        ctx.check('%s.non_decreasing[%d]' % (tag, i), ctx.le(kv[i], kv[i + 1]))


def kv_spec(p, n, uk):
    """Eq 9.8: u_0..u_p = 0, u_(j+p) = (1/p) sum_{i=j}^{j+p-1} uk_i  (j = 1..n-p-1), u_n..u_(n+p) = 1; n = points"""
    kv = [0] * (p + 1)
    for j in range(1, n - p):
        kv.append(_total(uk[j:j + p]) / p)
    return kv + [1] * (p + 1)


def kv2_spec(p, ndp, ncp, uk):
    """Eqs 9.68-9.69 with m+1 = ndp data points, n+1 = ncp control points:
       d = (m+1)/(n-p+1), i = int(j d), alpha = j d - i, u_(p+j) = (1-alpha) uk_(i-1) + alpha uk_i, j = 1..n-p"""
    d = Fraction(ndp, ncp - p)
    kv = [0] * (p + 1)
    for j in range(1, ncp - p):
        i = (j * d).numerator // (j * d).denominator
        al = j * d - i
        kv.append((1 - al) * uk[i - 1] + al * uk[i])
    return kv + [1] * (p + 1)


def _kv_shapes(tier):
    nmax, pmax = (8, 4) if tier == 'quick' else (12, 6)
    return [dict(n=n, p=p) for n in range(3, nmax + 1) for p in range(1, pmax + 1) if p < n]


@scenario('C11', fns=['fitting.compute_knot_vector'], quick=lambda: _kv_shapes('quick'), thorough=lambda: _kv_shapes('thorough'))
def knot_vector(ctx, n, p):
    """requires: 0 = uk[0] < ... < uk[n-1] = 1 (symbols), 1 <= p < n
       ensures : n + p + 1 knots, clamped, non-decreasing, Eq 9.8"""
    fit = ctx.geomdl('fitting')
    uk = _uk(ctx, n)
    kv = fit.compute_knot_vector(p, n, list(uk))
    _check_kv(ctx, 'kv', kv, p, n)
    ctx.check_eq_vec('kv=Eq9.8', kv, kv_spec(p, n, uk))


def _kv2_shapes(tier):
    mmax = 8 if tier == 'quick' else 12
    return [dict(m=m, p=p, ncp=c) for m in range(5, mmax + 1) for p in (1, 2, 3, 4) for c in range(p + 2, m)]


@scenario('C11', fns=['fitting.compute_knot_vector2'], quick=lambda: _kv2_shapes('quick'), thorough=lambda: _kv2_shapes('thorough'))
def knot_vector2(ctx, m, p, ncp):
    """requires: m increasing symbolic parameters, p + 2 <= ncp <= m - 1
       ensures : ncp + p + 1 knots, clamped, non-decreasing, Eqs 9.68-9.69"""
    fit = ctx.geomdl('fitting')
    uk = _uk(ctx, m)
    kv = fit.compute_knot_vector2(p, m, ncp, list(uk))
    _check_kv(ctx, 'kv', kv, p, ncp)
    ctx.check_eq_vec('kv=Eq9.68-9.69', kv, kv2_spec(p, m, ncp, uk))


# ------------------------------------------------------------------------------------------------
# interpolation
# ------------------------------------------------------------------------------------------------
def _ic_shapes(tier):
    """the symbolic reach is set by the pivots of the real LU factorisation: each `/ u[i][i]` asks the solver to
    show a polynomial in the sqrt atoms non-zero (the total-positivity fact of collocation matrices); it is decided
    for the shapes below, not e.g. for 5 points / degree 3 with a symbolic middle point"""
    out = []
    for c in (False, True):
        for n in (3, 4):
            for p in range(1, n):
                out.append(dict(n=n, p=p, dim=2, centripetal=c, sym='all', table='net'))
        out.append(dict(n=4, p=3, dim=3, centripetal=c, sym='all', table='net'))
        out.append(dict(n=5, p=1, dim=2, centripetal=c, sym='all', table='net'))
        out.append(dict(n=5, p=3, dim=2, centripetal=c, sym=[0], table='lattice'))
        out.append(dict(n=5, p=2, dim=2, centripetal=c, sym=[0, 4], table='net'))
        out.append(dict(n=5, p=3, dim=3, centripetal=c, sym=[], table='lattice'))
        out.append(dict(n=6, p=3, dim=3, centripetal=c, sym=[], table='lattice'))
        out.append(dict(n=9, p=2, dim=2, centripetal=c, sym=[], table='lattice'))
        out.append(dict(n=7, p=3, dim=2, centripetal=c, sym=[], table='uniform'))
    out.append(dict(n=5, p=3, dim=2, centripetal=False, sym=[0], table='uniform'))
    out.append(dict(n=5, p=2, dim=2, centripetal=False, sym='all', table='net'))
    out.append(dict(n=5, p=2, dim=2, centripetal=False, sym=[2], table='lattice'))
    out.append(dict(n=5, p=3, dim=2, centripetal=False, sym=[0, 4], table='net'))
    out.append(dict(n=5, p=2, dim=2, centripetal=True, sym=[4], table='lattice'))
    if tier == 'thorough':
        for c in (False, True):
            for n, p in ((8, 3), (12, 3), (20, 2), (40, 3)):
                out.append(dict(n=n, p=p, dim=3, centripetal=c, sym=[], table='lattice'))
            for p in (1, 2, 3):
                out.append(dict(n=5, p=p, dim=2, centripetal=c, sym=[4], table='lattice'))
                out.append(dict(n=6, p=p, dim=2, centripetal=c, sym=[0], table='lattice'))
    return out


@scenario('C11', fns=['fitting.interpolate_curve', 'fitting.compute_params_curve', 'fitting.compute_knot_vector',
                      'fitting._build_coeff_matrix', 'linalg.lu_solve', 'linalg.lu_decomposition', '_linalg.doolittle',
                      'linalg.forward_substitution', 'linalg.backward_substitution', 'helpers.find_span_linear',
                      'helpers.basis_function', 'BSpline.Curve.evaluate_single'],
          quick=lambda: _ic_shapes('quick'), thorough=lambda: _ic_shapes('thorough'))
def interp_curve(ctx, n, p, dim, centripetal, sym, table):
    """requires: n data points, consecutive ones distinct, 1 <= p < n
       ensures : degree p, n control points, knot vector of Eq 9.8 on uk, C(uk[i]) = Q[i] for every i"""
    fit = ctx.geomdl('fitting')
    Q = _points(ctx, n, dim, sym, table)
    arg = _copy(Q)
    crv = fit.interpolate_curve(arg, p, centripetal=centripetal)
    ctx.check_eq_grid('input.unchanged', arg, Q)
    uk = fit.compute_params_curve(_copy(Q), centripetal)
    ctx.check_true('type', isinstance(crv, ctx.geomdl('BSpline').Curve) and not crv.rational)
    ctx.check_true('degree', crv.degree == p, 'degree=%r, requested %d' % (crv.degree, p))
    ctx.check_true('ctrlpts.count', crv.ctrlpts_size == n and len(crv.ctrlpts) == n)
    ctx.check_true('dimension', crv.dimension == dim)
    ctx.check_eq_vec('knotvector=Eq9.8', crv.knotvector, kv_spec(p, n, uk))
    for i in range(n):
        ctx.check_eq_vec('through[%d]' % i, crv.evaluate_single(uk[i]), Q[i])


def _is_shapes(tier):
    out = [dict(su=3, sv=3, pu=2, pv=2, centripetal=False, sym=[(1, 1)], bump=[]),
           dict(su=3, sv=3, pu=1, pv=2, centripetal=False, sym=[(0, 0)], bump=[]),
           dict(su=3, sv=4, pu=2, pv=3, centripetal=False, sym=[], bump=[(1, 1)]),
           dict(su=4, sv=3, pu=3, pv=1, centripetal=False, sym=[(1, 1)], bump=[]),
           dict(su=4, sv=4, pu=3, pv=3, centripetal=False, sym=[(1, 1)], bump=[]),
           dict(su=4, sv=4, pu=2, pv=3, centripetal=False, sym=[(0, 0)], bump=[]),
           dict(su=3, sv=3, pu=2, pv=2, centripetal=True, sym=[], bump=[(0, 0)]),
           dict(su=3, sv=3, pu=1, pv=2, centripetal=True, sym=[(0, 0)], bump=[]),
           dict(su=3, sv=4, pu=2, pv=3, centripetal=True, sym=[], bump=[]),
           dict(su=4, sv=3, pu=3, pv=1, centripetal=True, sym=[], bump=[(0, 0)]),
           dict(su=4, sv=4, pu=3, pv=3, centripetal=True, sym=[], bump=[]),
           dict(su=4, sv=4, pu=2, pv=3, centripetal=True, sym=[], bump=[])]
    if tier == 'thorough':
        out += [dict(su=3, sv=3, pu=2, pv=2, centripetal=True, sym=[], bump=[(1, 1)]),
                dict(su=4, sv=4, pu=2, pv=3, centripetal=False, sym=[(1, 1)], bump=[]),
                dict(su=6, sv=7, pu=3, pv=2, centripetal=False, sym=[], bump=[]),
                dict(su=7, sv=7, pu=3, pv=3, centripetal=True, sym=[], bump=[])]
    return out


@scenario('C11', fns=['fitting.interpolate_surface', 'fitting.compute_params_surface', 'fitting.compute_knot_vector',
                      'fitting._build_coeff_matrix', 'linalg.lu_solve', 'BSpline.Surface.evaluate_single'],
          quick=lambda: _is_shapes('quick'), thorough=lambda: _is_shapes('thorough'))
def interp_surface(ctx, su, sv, pu, pv, centripetal, sym, bump):
    """requires: su x sv data grid Q[v + sv*u] (rows and columns of distinct consecutive points)
       ensures : degrees (pu, pv), su x sv control points, knot vectors of Eq 9.8 on uk / vl,
                 S(uk[i], vl[j]) = Q[j + sv*i] for every i, j"""
    fit = ctx.geomdl('fitting')
    Q = _grid(ctx, su, sv, sym, bump)
    srf = fit.interpolate_surface(_copy(Q), su, sv, pu, pv, centripetal=centripetal)
    uk, vl = fit.compute_params_surface(_copy(Q), su, sv, centripetal)
    ctx.check_true('type', isinstance(srf, ctx.geomdl('BSpline').Surface) and not srf.rational)
    ctx.check_true('degree', srf.degree_u == pu and srf.degree_v == pv,
                   'degrees=(%r, %r), requested (%d, %d)' % (srf.degree_u, srf.degree_v, pu, pv))
    ctx.check_true('ctrlpts.count', srf.ctrlpts_size_u == su and srf.ctrlpts_size_v == sv and len(srf.ctrlpts) == su * sv)
    ctx.check_eq_vec('knotvector_u=Eq9.8', srf.knotvector_u, kv_spec(pu, su, uk))
    ctx.check_eq_vec('knotvector_v=Eq9.8', srf.knotvector_v, kv_spec(pv, sv, vl))
    for i in range(su):
        for j in range(sv):
            ctx.check_eq_vec('through[%d][%d]' % (i, j), srf.evaluate_single([uk[i], vl[j]]), Q[j + sv * i])


# ------------------------------------------------------------------------------------------------
# least squares
# ------------------------------------------------------------------------------------------------
def normal_equations(p, kv, uk, Q, ncp):
    """(N^T N, R) of Eqs 9.63-9.67 for data Q at parameters uk, ncp control points on knot vector kv.
    N[k-1][j-1] = N_j,p(uk_k) (k = 1..m-1, j = 1..n-1); R_k = Q_k - N_0(uk_k) Q_0 - N_n(uk_k) Q_m;
    R[j-1] = sum_k N_j(uk_k) R_k"""
    m, n = len(Q) - 1, ncp - 1
    dim = len(Q[0])
    B = [[spec.halfopen_basis(j, p, kv, uk[k]) for j in range(n + 1)] for k in range(1, m)]     # rows k = 1..m-1
    NtN = [[_total(B[k][a] * B[k][b] for k in range(m - 1)) for b in range(1, n)] for a in range(1, n)]
    Rk = [[Q[k][d] - B[k - 1][0] * Q[0][d] - B[k - 1][n] * Q[m][d] for d in range(dim)] for k in range(1, m)]
    R = [[_total(B[k][j] * Rk[k][d] for k in range(m - 1)) for d in range(dim)] for j in range(1, n)]
    return NtN, R


def _ac_shapes(tier):
    out = [dict(m=5, p=2, ncp=4, dim=2, centripetal=False, sym=[0, 4], table='net'),      # (three symbolic points: pivot tests time out under load)
           dict(m=5, p=2, ncp=4, dim=2, centripetal=False, sym=[2], table='lattice'),
           dict(m=6, p=2, ncp=4, dim=2, centripetal=False, sym=[0, 5], table='lattice'),
           dict(m=6, p=2, ncp=5, dim=3, centripetal=False, sym=[2], table='lattice'),
           dict(m=6, p=3, ncp=5, dim=2, centripetal=False, sym=[0, 5], table='lattice'),
           dict(m=7, p=2, ncp=4, dim=2, centripetal=False, sym=[0, 6], table='lattice'),
           dict(m=7, p=2, ncp=5, dim=2, centripetal=False, sym=[0, 6], table='lattice'),
           dict(m=7, p=2, ncp=6, dim=2, centripetal=False, sym=[2], table='lattice'),
           dict(m=7, p=3, ncp=5, dim=2, centripetal=False, sym=[0, 6], table='lattice'),
           dict(m=7, p=3, ncp=6, dim=3, centripetal=False, sym=[0], table='lattice'),
           dict(m=5, p=2, ncp=4, dim=2, centripetal=True, sym=[0, 4], table='lattice'),
           dict(m=6, p=2, ncp=4, dim=2, centripetal=True, sym=[0], table='lattice'),
           dict(m=6, p=2, ncp=5, dim=2, centripetal=True, sym=[0, 5], table='lattice'),
           dict(m=6, p=3, ncp=5, dim=3, centripetal=True, sym=[0], table='lattice'),
           dict(m=7, p=2, ncp=4, dim=2, centripetal=True, sym=[0, 6], table='lattice'),
           dict(m=7, p=2, ncp=5, dim=2, centripetal=True, sym=[0, 6], table='lattice'),
           dict(m=7, p=2, ncp=6, dim=2, centripetal=True, sym=[0, 6], table='lattice'),
           dict(m=7, p=3, ncp=5, dim=2, centripetal=True, sym=[0, 6], table='lattice'),
           dict(m=7, p=3, ncp=6, dim=3, centripetal=True, sym=[], table='lattice'),
           # a single-span (Bezier) least-squares fit: number of control points = degree + 1, no interior knots
           dict(m=5, p=2, ncp=3, dim=2, centripetal=False, sym=[0, 4], table='lattice'),
           dict(m=6, p=3, ncp=4, dim=2, centripetal=False, sym=[2], table='lattice'),
           dict(m=7, p=3, ncp=4, dim=3, centripetal=True, sym=[], table='lattice'),
           dict(m=6, p=2, ncp=4, dim=2, centripetal=False, sym=[], table='uniform'),
           dict(m=7, p=3, ncp=5, dim=3, centripetal=True, sym=[], table='uniform'),
           # higher degrees with enough control points that basis functions further apart than the degree still overlap
           dict(m=10, p=4, ncp=8, dim=2, centripetal=False, sym=[], table='lattice'),
           dict(m=11, p=5, ncp=9, dim=2, centripetal=True, sym=[], table='uniform'),
           # data whose path comes back to a location visited before (equal points at different parameters)
           dict(m=6, p=2, ncp=4, dim=2, centripetal=False, sym=[], table='revisit'),
           dict(m=9, p=3, ncp=6, dim=3, centripetal=False, sym=[], table='revisit'),
           dict(m=6, p=2, ncp=4, dim=2, centripetal=False, sym=[], table='revisit', alias=True),
           dict(m=9, p=3, ncp=7, dim=2, centripetal=True, sym=[], table='revisit', alias=True)]
    if tier == 'thorough':
        for c in (False, True):
            out.append(dict(m=7, p=3, ncp=6, dim=2, centripetal=c, sym=[0, 6], table='lattice'))
            for m, p, ncp in ((10, 3, 6), (20, 3, 9), (40, 3, 12), (40, 2, 39)):
                out.append(dict(m=m, p=p, ncp=ncp, dim=3, centripetal=c, sym=[], table='lattice'))
    return out


@scenario('C11', fns=['fitting.approximate_curve', 'fitting.compute_params_curve', 'fitting.compute_knot_vector2',
                      'helpers.basis_function_one', 'linalg.matrix_transpose', 'linalg.matrix_multiply',
                      'linalg.lu_decomposition', '_linalg.doolittle', 'linalg.forward_substitution',
                      'linalg.backward_substitution', 'BSpline.Curve.evaluate_single'],
          quick=lambda: _ac_shapes('quick'), thorough=lambda: _ac_shapes('thorough'))
def approx_curve(ctx, m, p, ncp, dim, centripetal, sym, table, alias=False):
    """requires: m data points (consecutive distinct), p + 2 <= ncp <= m - 1
       ensures : degree p, ncp control points, knot vector of Eqs 9.68-9.69 on uk, P[0] = Q[0], P[-1] = Q[-1],
                 C(0) = Q[0], C(1) = Q[-1], (N^T N) P_interior = R  (Eqs 9.63-9.67)"""
    fit = ctx.geomdl('fitting')
    Q = _points(ctx, m, dim, sym, table)
    Qin = _copy(Q)
    if alias:
        # the data list holds the SAME point object at the two indices where the path revisits a location
        for i in range(len(Q)):
            for j in range(i + 2, len(Q)):
                if all(ctx.is_const(a) and ctx.is_const(b) and ctx.as_fraction(a) == ctx.as_fraction(b) for a, b in zip(Q[i], Q[j])):
                    Qin[j] = Qin[i]
    crv = fit.approximate_curve(Qin, p, centripetal=centripetal, ctrlpts_size=ncp)
    uk = fit.compute_params_curve(_copy(Q), centripetal)
    ctx.check_true('degree', crv.degree == p, 'degree=%r, requested %d' % (crv.degree, p))
    ctx.check_true('ctrlpts.count', crv.ctrlpts_size == ncp and len(crv.ctrlpts) == ncp,
                   'ctrlpts_size=%r, requested %d' % (crv.ctrlpts_size, ncp))
    kv = list(crv.knotvector)
    ctx.check_eq_vec('knotvector=Eq9.68-9.69', kv, kv2_spec(p, m, ncp, uk))
    P = crv.ctrlpts
    ctx.check_eq_vec('end.P0=Q0', P[0], Q[0])
    ctx.check_eq_vec('end.Pn=Qm', P[-1], Q[-1])
    ctx.check_eq_vec('end.C(0)=Q0', crv.evaluate_single(0), Q[0])
    ctx.check_eq_vec('end.C(1)=Qm', crv.evaluate_single(1), Q[-1])
    NtN, R = normal_equations(p, kv, uk, Q, ncp)
    for a in range(ncp - 2):
        for d in range(dim):
            ctx.check_eq('normal_eq[%d][%d]' % (a + 1, d), _total(NtN[a][b] * P[b + 1][d] for b in range(ncp - 2)), R[a][d])


@scenario('C11', fns=['fitting.interpolate_curve', 'fitting.approximate_curve', 'fitting.interpolate_surface',
                      'BSpline.Curve.evaluate_single', 'BSpline.Surface.evaluate_single'],
          quick=[dict(first='interp', second='interp'), dict(first='interp', second='approx'), dict(first='approx', second='interp'),
                 dict(first='surface', second='surface')])
def results_are_the_callers(ctx, first, second):
    """requires: two fits of different data sets with different degrees, one after the other, the first result kept
       ensures : after the second fit the first result is still its own fit: requested degree, number of control points,
                 passes through its own data points at its own parameters (interpolation) / ends on its own end points"""
    fit = ctx.geomdl('fitting')

    def run(kind, n, p, table, prefix):
        if kind == 'surface':
            su, sv = n
            # a planar lattice with steps of length 3 and 4 (+ an offset): every chord length is rational
            off = 0 if prefix == 'Q' else 7
            Q = [[ctx.lit(F(3 * i + off)), ctx.lit(F(4 * j - off)), ctx.lit(F(off, 2))] for i in range(su) for j in range(sv)]
            srf = fit.interpolate_surface(_copy(Q), su, sv, p[0], p[1])
            return dict(kind=kind, obj=srf, Q=Q, n=n, p=p)
        Q = _points(ctx, n, 2, [], table, prefix=prefix)
        if kind == 'interp':
            obj = fit.interpolate_curve(_copy(Q), p)
        else:
            obj = fit.approximate_curve(_copy(Q), p, ctrlpts_size=n - 1)
        return dict(kind=kind, obj=obj, Q=Q, n=n, p=p)

    def look(tag, r):
        o, Q = r['obj'], r['Q']
        if r['kind'] == 'surface':
            su, sv = r['n']
            ctx.check_true(tag + '.degrees', o.degree_u == r['p'][0] and o.degree_v == r['p'][1])
            ctx.check_true(tag + '.net_size', o.ctrlpts_size_u == su and o.ctrlpts_size_v == sv)
            uk, vl = fit.compute_params_surface(_copy(Q), su, sv)
            for i in (0, su - 1):
                for j in (0, sv - 1):
                    ctx.check_eq_vec('%s.corner[%d][%d]' % (tag, i, j), o.evaluate_single([uk[i], vl[j]]), Q[j + sv * i])
            ctx.check_eq_vec(tag + '.interior_data_point', o.evaluate_single([uk[1], vl[1]]), Q[1 + sv * 1])
            return
        ctx.check_true(tag + '.degree', o.degree == r['p'], 'degree %r, fitted with %d' % (o.degree, r['p']))
        want_n = r['n'] if r['kind'] == 'interp' else r['n'] - 1
        ctx.check_true(tag + '.ctrlpts_count', o.ctrlpts_size == want_n, '%r control points, expected %d' % (o.ctrlpts_size, want_n))
        ctx.check_eq_vec(tag + '.C(0)=Q0', o.evaluate_single(0), Q[0])
        ctx.check_eq_vec(tag + '.C(1)=Qm', o.evaluate_single(1), Q[-1])
        if r['kind'] == 'interp':
            uk = fit.compute_params_curve(_copy(Q), False)
            for i in range(1, r['n'] - 1):
                ctx.check_eq_vec('%s.C(uk[%d])=Q[%d]' % (tag, i, i), o.evaluate_single(uk[i]), Q[i])

    if first == 'surface':
        r1 = run('surface', (3, 4), (2, 2), None, 'Q')
        look('first', r1)
        r2 = run('surface', (4, 3), (1, 2), None, 'S')
    else:
        r1 = run(first, 5, 2, 'lattice', 'Q')
        look('first', r1)
        r2 = run(second, 6, 3, 'uniform', 'S')
    look('second', r2)
    look('first.after_second', r1)


def _as_shapes(tier):
    out = [dict(su=5, sv=5, pu=2, pv=2, cu=4, cv=4, centripetal=False, sym=[(0, 0)], bump=[]),
           dict(su=5, sv=6, pu=2, pv=3, cu=4, cv=5, centripetal=False, sym=[(4, 0)], bump=[]),
           dict(su=6, sv=6, pu=3, pv=3, cu=5, cv=5, centripetal=False, sym=[], bump=[]),
           dict(su=5, sv=5, pu=2, pv=2, cu=4, cv=4, centripetal=True, sym=[], bump=[]),
           dict(su=7, sv=6, pu=3, pv=2, cu=6, cv=4, centripetal=True, sym=[], bump=[]),
           # fewer control points than data points - 1 in u (the default count hides an index that should follow the data)
           dict(su=6, sv=5, pu=2, pv=2, cu=4, cv=4, centripetal=False, sym=[], bump=[])]
    if tier == 'thorough':
        out += [dict(su=5, sv=6, pu=2, pv=3, cu=4, cv=5, centripetal=True, sym=[(4, 0)], bump=[])]
    return out


@scenario('C11', fns=['fitting.approximate_surface', 'fitting.compute_params_surface', 'fitting.compute_knot_vector2',
                      'helpers.basis_function_one', 'linalg.lu_decomposition', 'linalg.forward_substitution',
                      'linalg.backward_substitution', 'BSpline.Surface.evaluate_single'],
          quick=lambda: _as_shapes('quick'), thorough=lambda: _as_shapes('thorough'))
def approx_surface(ctx, su, sv, pu, pv, cu, cv, centripetal, sym, bump):
    """requires: su x sv data grid, p + 2 <= control points <= data points - 1 per direction
       ensures : degrees, cu x cv control points, knot vectors of Eqs 9.68-9.69, the four corner control points are
                 the corner data points and S at the domain corners equals them"""
    fit = ctx.geomdl('fitting')
    Q = _grid(ctx, su, sv, sym, bump)
    srf = fit.approximate_surface(_copy(Q), su, sv, pu, pv, centripetal=centripetal, ctrlpts_size_u=cu, ctrlpts_size_v=cv)
    uk, vl = fit.compute_params_surface(_copy(Q), su, sv, centripetal)
    ctx.check_true('degree', srf.degree_u == pu and srf.degree_v == pv)
    ctx.check_true('ctrlpts.count', srf.ctrlpts_size_u == cu and srf.ctrlpts_size_v == cv and len(srf.ctrlpts) == cu * cv)
    ctx.check_eq_vec('knotvector_u=Eq9.68-9.69', srf.knotvector_u, kv2_spec(pu, su, cu, uk))
    ctx.check_eq_vec('knotvector_v=Eq9.68-9.69', srf.knotvector_v, kv2_spec(pv, sv, cv, vl))
    P = srf.ctrlpts
    for (a, b) in ((0, 0), (0, 1), (1, 0), (1, 1)):
        q = Q[b * (sv - 1) + sv * (a * (su - 1))]
        ctx.check_eq_vec('corner%d%d.ctrlpt' % (a, b), P[b * (cv - 1) + cv * (a * (cu - 1))], q)
        ctx.check_eq_vec('corner%d%d.S' % (a, b), srf.evaluate_single([a, b]), q)
