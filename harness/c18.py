"""C18 Shapes stay inside the hull of their control points (bounded tier).

Statement: for positive weights every evaluated point of a curve / surface / volume lies in the convex hull of the
degree+1 (per direction) control points active on its knot interval, hence inside the reported bounding box of the
control net; clamped shapes start and end at their first and last control points; the approximate length of a
non-rational curve is never less than its end-to-end chord.

How the hull claim is turned into decidable obligations (all through the public API, nothing stubbed):

  hull_*     symbolic knots (shape family of C01), symbolic parameter(s), symbolic control points, positive symbolic
             weights.  With lambda_i = B_i(u) w_i / sum_j B_j(u) w_j  (B = spec.basis_row at spec.span_spec, the
             tensor product for surfaces / volumes) the obligations are
               (a) operations.find_ctrlpts returns exactly the (p+1) [x (q+1)] control points P[span-p .. span]
                   (rational surfaces: in the documented `ctrlpts2d` representation (x*w, y*w, z*w, w) of those points),
               (b) evaluate_single == sum_i lambda_i * (those returned points)       [identity]
               (c) sum_i lambda_i == 1                                               [identity]
               (d) lambda_i >= 0 for every i                                         [order obligation, z3/nlsat]
             (b)-(d) are the definition of "lies in the convex hull of the active control points".  (d) is given to the
             solver (nlsat, division-free form) for the instances with signs=True: all quick shapes, i.e. curves of
             degree <= 3, non-rational and rational (for rational curves the factors B_i >= 0, w_i > 0 and the quotient
             itself); surfaces and volumes: the univariate factors Bu_k, Bv_l, Bw_m of lambda (a product of
             non-negative factors divided by the positive weight function is non-negative).  signs=False (thorough
             tier, degree 5 / rational cubic with two interior knots): only (a)-(c) are claimed.  Volumes have no
             find_ctrlpts (the function rejects them: checked), their active set is the spec's.
  ends       clamped shapes evaluated at the domain ends / corners give the first / last (corner) control points, also
             with unnormalised symbolic end knots and for rational shapes.
  bbox_contract   utilities.evaluate_bounding_box on fully symbolic points, every ordering explored by forking:
             min_d <= P_i[d] <= max_d for all i, d and both bounds attained.
  inside_bbox     concrete knots, symbolic parameter(s), control points with one symbolic coordinate whose order is
             assumed through ctx.assume_sorted along a permutation (parameter `perm`; the constant coordinates are
             ordered by construction): obj.bbox is exactly (min, max) of the control point coordinates, and for every
             coordinate d   C_d(u) - min_d == sum_i lambda_i (P_i[d] - min_d),  lambda_i >= 0,  P_i[d] - min_d >= 0
             (same for max_d - C_d(u)); in addition the end-to-end obligation min_d <= C_d(u) <= max_d is given to the
             solver directly for curves and surfaces, rational ones included (trilinear volumes: the solver does not
             decide it within the budget, the decomposition above stands), and every point of obj.evalpts (5 / 3x3 /
             2x3x2 samples) is checked against obj.bbox.
  length     operations.length_curve of a non-rational clamped curve with 3-4 samples: the result equals the polyline
             length of evalpts and is >= |evalpts[-1] - evalpts[0]| = |P[-1] - P[0]|.  Segment lengths are sqrt atoms
             (A4).  net='sym': one symbolic coordinate per control point; the bound is established through the chain
             of triangle inequalities |E_k - E_0| <= |E_(k-1) - E_0| + |E_k - E_(k-1)| (each decided by nlsat on
             three atoms) plus their linear consequence, and directly for 3 samples.  net='lattice': control
             polygons with rational steps (p = 1: rational segment lengths, the comparison is exact arithmetic).

Excluded (DESIGN.md section 8): the upper bound "length <= control-polygon length" needs the variation-diminishing
theorem and sums of square roots; no obligation here speaks about it.
"""
from fractions import Fraction

from .api import scenario
from . import shapes, spec, assumptions

assumptions.PROPS['C18'] = {'level': 'other', 'assume': ['A1', 'A2', 'A4', 'A5', 'A6', 'A7']}

F = Fraction


def _total(xs):
    t = 0
    for x in xs:
        t = t + x
    return t


def _sqrt(ctx, x):
    """math.sqrt as the engine models it (A4) / native sqrt in the replay"""
    if ctx.mode == 'sym':
        from symx import qnum
        return qnum.vq_sqrt(x)
    import math
    return math.sqrt(x)


def _nonneg(ctx, label, q):
    """order obligation 0 <= q for a rational function q of the inputs (division-free form, fresh nlsat query)"""
    if ctx.mode == 'sym':
        ctx.check(label, ctx.sign_free_le(0, q), nonlinear=not ctx.is_const(q))
    else:
        ctx.check(label, q >= -ctx.RTOL)


def _combine(lams, pts, dim):
    return [_total(l * p[d] for l, p in zip(lams, pts)) for d in range(dim)]


# ------------------------------------------------------------------------------------------------
# hull: curves
# ------------------------------------------------------------------------------------------------
def _hull_curve_shapes(tier):
    out = []
    pmax, kmax = (3, 2) if tier == 'quick' else (4, 3)
    for p in range(1, pmax + 1):
        for k in range(0, kmax + 1):
            for mult in shapes.compositions(k, p):
                out.append(dict(p=p, mult=list(mult), rational=False, signs=p <= 3))
    for p, mult in ((1, [1]), (2, []), (2, [1]), (2, [2]), (3, [1])):
        out.append(dict(p=p, mult=mult, rational=True, signs=p <= 3))
    if tier == 'thorough':
        out.append(dict(p=3, mult=[1, 1], rational=True, signs=False))
        out.append(dict(p=5, mult=[2], rational=False, signs=False))
    return out


@scenario('C18', fns=['operations.find_ctrlpts', '_operations.find_ctrlpts_curve', 'BSpline.Curve.evaluate_single',
                      'evaluators.CurveEvaluator.evaluate', 'evaluators.CurveEvaluatorRational.evaluate',
                      'helpers.basis_function', 'helpers.find_span_linear'],
          quick=lambda: _hull_curve_shapes('quick'), thorough=lambda: _hull_curve_shapes('thorough'))
def hull_curve(ctx, p, mult, rational, signs):
    """requires: valid clamped knot vector (symbolic interior knots), u in the domain, positive weights
       ensures : (a)-(d) of the module docstring; signs=False: (d) not attempted"""
    U, inner, n = shapes.make_kv(ctx, p, mult)
    u = shapes.param_in(ctx, 'u', U[0], U[-1])
    P = shapes.net(ctx, 'P', n, 2)
    W = shapes.weights(ctx, 'w', n) if rational else None
    crv = shapes.build_curve(ctx, p, U, P, W)
    span = spec.span_spec(p, U, n, u)
    row = spec.basis_row(p, U, span, u)
    idx = list(range(span - p, span + 1))
    if rational:
        wf = _total(row[i] * W[i] for i in idx)
        ctx.assume_pos(wf, 'L.weight_function_positive')
        lam = [row[i] * W[i] / wf for i in idx]
    else:
        lam = [row[i] for i in idx]
    act = ctx.geomdl('operations').find_ctrlpts(crv, u)
    ctx.check_true('active.count', len(act) == p + 1, 'find_ctrlpts returned %d points, degree+1 = %d' % (len(act), p + 1))
    ctx.check_eq_grid('active=P[span-p..span]', act, [P[i] for i in idx])
    ctx.check_eq('lambda.sum=1', _total(lam), 1)
    ctx.check_eq_vec('point=sum(lambda*active)', crv.evaluate_single(u), _combine(lam, act, 2))
    if signs:
        for k, l in enumerate(lam):
            if rational:
                # lambda = B_i w_i / W(u) with w_i > 0 (precondition) and W(u) > 0 (lemma): the sign is the sign of B_i
                _nonneg(ctx, 'lambda[%d]>=0.basis' % k, row[idx[k]])
                _nonneg(ctx, 'lambda[%d]>=0.weight' % k, W[idx[k]])
                _nonneg(ctx, 'lambda[%d]>=0' % k, l)
            else:
                _nonneg(ctx, 'lambda[%d]>=0' % k, l)


# ------------------------------------------------------------------------------------------------
# hull: surfaces, volumes
# ------------------------------------------------------------------------------------------------
def _hull_surface_shapes(tier):
    out = [dict(pu=1, pv=1, mu=[], mv=[1], rational=False), dict(pu=2, pv=1, mu=[1], mv=[], rational=False),
           dict(pu=2, pv=2, mu=[1], mv=[1], rational=False), dict(pu=1, pv=2, mu=[1], mv=[], rational=True),
           dict(pu=2, pv=2, mu=[], mv=[], rational=True)]
    if tier == 'thorough':
        out += [dict(pu=3, pv=2, mu=[1], mv=[1, 1], rational=False), dict(pu=2, pv=2, mu=[1], mv=[1], rational=True)]
    return out


@scenario('C18', fns=['operations.find_ctrlpts', '_operations.find_ctrlpts_surface', 'BSpline.Surface.evaluate_single',
                      'BSpline.Surface.ctrlpts2d', 'evaluators.SurfaceEvaluator.evaluate',
                      'evaluators.SurfaceEvaluatorRational.evaluate'],
          quick=lambda: _hull_surface_shapes('quick'), thorough=lambda: _hull_surface_shapes('thorough'))
def hull_surface(ctx, pu, pv, mu, mv, rational):
    """ensures: find_ctrlpts(srf, u, v)[k][l] is control point (span_u-pu+k, span_v-pv+l) (rational: its homogeneous
                ctrlpts2d form); S(u,v) = sum lambda_kl * (returned points, dehomogenised); sum lambda = 1;
                the univariate factors of lambda_kl = Bu_k Bv_l w_kl / W(u,v) are >= 0"""
    U, iu, su = shapes.make_kv(ctx, pu, mu, prefix='a')
    V, iv, sv = shapes.make_kv(ctx, pv, mv, prefix='b')
    u = shapes.param_in(ctx, 'u', U[0], U[-1])
    v = shapes.param_in(ctx, 'v', V[0], V[-1])
    P = shapes.net(ctx, 'P', su * sv, 3)
    W = shapes.weights(ctx, 'w', su * sv) if rational else None
    srf = shapes.build_surface(ctx, pu, pv, U, V, P, su, sv, W)
    a = spec.span_spec(pu, U, su, u)
    b = spec.span_spec(pv, V, sv, v)
    ru = spec.basis_row(pu, U, a, u)
    rv = spec.basis_row(pv, V, b, v)
    iu_, iv_ = list(range(a - pu, a + 1)), list(range(b - pv, b + 1))
    act = ctx.geomdl('operations').find_ctrlpts(srf, u, v)
    ctx.check_true('active.shape', len(act) == pu + 1 and all(len(r) == pv + 1 for r in act))
    flat, lam = [], []
    if rational:
        wf = _total(ru[i] * rv[j] * W[j + sv * i] for i in iu_ for j in iv_)
        ctx.assume_pos(wf, 'L.weight_function_positive')
    for k, i in enumerate(iu_):
        for l, j in enumerate(iv_):
            pt = P[j + sv * i]
            if rational:
                w = W[j + sv * i]
                ctx.check_eq_vec('active[%d][%d]=Pw[span-p..span]' % (k, l), act[k][l], [c * w for c in pt] + [w])
                flat.append(spec.project(act[k][l]))
                lam.append(ru[i] * rv[j] * w / wf)
            else:
                ctx.check_eq_vec('active[%d][%d]=P[span-p..span]' % (k, l), act[k][l], pt)
                flat.append(act[k][l])
                lam.append(ru[i] * rv[j])
    ctx.check_eq('lambda.sum=1', _total(lam), 1)
    ctx.check_eq_vec('point=sum(lambda*active)', srf.evaluate_single([u, v]), _combine(lam, flat, 3))
    for k, i in enumerate(iu_):
        _nonneg(ctx, 'lambda.factor_u[%d]>=0' % k, ru[i])
    for l, j in enumerate(iv_):
        _nonneg(ctx, 'lambda.factor_v[%d]>=0' % l, rv[j])
    exc = ctx.geomdl('exceptions').GeomdlException
    ctx.check_raises('surface_needs_v', exc, ctx.geomdl('operations').find_ctrlpts, srf, u)


def _hull_volume_shapes(tier):
    out = [dict(deg=[1, 1, 1], m=[[], [], []], rational=False), dict(deg=[2, 1, 1], m=[[1], [], []], rational=False),
           dict(deg=[1, 1, 2], m=[[], [1], []], rational=True)]
    if tier == 'thorough':
        out += [dict(deg=[2, 2, 2], m=[[1], [], [1]], rational=False)]
    return out


@scenario('C18', fns=['BSpline.Volume.evaluate_single', 'evaluators.VolumeEvaluator.evaluate',
                      'evaluators.VolumeEvaluatorRational.evaluate', 'operations.find_ctrlpts'],
          quick=lambda: _hull_volume_shapes('quick'), thorough=lambda: _hull_volume_shapes('thorough'))
def hull_volume(ctx, deg, m, rational):
    """ensures: V(u,v,w) = sum lambda_ijk P_ijk over the (pu+1)(pv+1)(pw+1) control points of the spec's active set
                (layout v + sv*(u + su*w)), sum lambda = 1, univariate factors >= 0; find_ctrlpts rejects volumes"""
    kvs, sizes = [], []
    for a, pfx in enumerate('abc'):
        U, _iu, n = shapes.make_kv(ctx, deg[a], m[a], prefix=pfx)
        kvs.append(U)
        sizes.append(n)
    prm = [shapes.param_in(ctx, nm, ctx.lit(0), ctx.lit(1)) for nm in ('u', 'v', 'w')]
    su, sv, sw = sizes
    P = shapes.net(ctx, 'P', su * sv * sw, 3)
    W = shapes.weights(ctx, 'w', su * sv * sw) if rational else None
    vol = shapes.build_volume(ctx, deg[0], deg[1], deg[2], kvs[0], kvs[1], kvs[2], P, su, sv, sw, W)
    spans = [spec.span_spec(deg[a], kvs[a], sizes[a], prm[a]) for a in range(3)]
    rows = [spec.basis_row(deg[a], kvs[a], spans[a], prm[a]) for a in range(3)]
    cells = [(i, j, k) for i in range(spans[0] - deg[0], spans[0] + 1) for j in range(spans[1] - deg[1], spans[1] + 1)
             for k in range(spans[2] - deg[2], spans[2] + 1)]
    coef = [rows[0][i] * rows[1][j] * rows[2][k] for (i, j, k) in cells]
    pts = [P[spec.layout(i, j, k, su, sv)] for (i, j, k) in cells]
    if rational:
        ws = [W[spec.layout(i, j, k, su, sv)] for (i, j, k) in cells]
        wf = _total(c * w for c, w in zip(coef, ws))
        ctx.assume_pos(wf, 'L.weight_function_positive')
        lam = [c * w / wf for c, w in zip(coef, ws)]
    else:
        lam = coef
    ctx.check_true('active.count', len(cells) == (deg[0] + 1) * (deg[1] + 1) * (deg[2] + 1))
    ctx.check_eq('lambda.sum=1', _total(lam), 1)
    ctx.check_eq_vec('point=sum(lambda*active)', vol.evaluate_single(prm), _combine(lam, pts, 3))
    for a in range(3):
        for i in range(spans[a] - deg[a], spans[a] + 1):
            _nonneg(ctx, 'lambda.factor%d[%d]>=0' % (a, i - spans[a] + deg[a]), rows[a][i])
    exc = ctx.geomdl('exceptions').GeomdlException
    ctx.check_raises('volume_rejected_by_find_ctrlpts', exc, ctx.geomdl('operations').find_ctrlpts, vol, prm[0], prm[1])


# ------------------------------------------------------------------------------------------------
# clamped ends
# ------------------------------------------------------------------------------------------------
def _ends_shapes(tier):
    out = []
    for p in (1, 2, 3):
        for mult in ([], [1], [p]) if p > 1 else ([], [1]):
            out.append(dict(kind='curve', deg=[p], mult=[mult], rational=False, normalized=True))
    out += [dict(kind='curve', deg=[2], mult=[[1]], rational=True, normalized=True),
            dict(kind='curve', deg=[3], mult=[[1, 1]], rational=True, normalized=True),
            dict(kind='curve', deg=[2], mult=[[1]], rational=False, normalized=False),
            dict(kind='curve', deg=[3], mult=[[]], rational=True, normalized=False),
            dict(kind='surface', deg=[1, 2], mult=[[1], []], rational=False, normalized=True),
            dict(kind='surface', deg=[2, 2], mult=[[1], [1]], rational=False, normalized=True),
            dict(kind='surface', deg=[2, 1], mult=[[], [1]], rational=True, normalized=True),
            dict(kind='surface', deg=[2, 3], mult=[[1], []], rational=False, normalized=False),
            dict(kind='volume', deg=[1, 1, 1], mult=[[], [], []], rational=False, normalized=True),
            dict(kind='volume', deg=[2, 1, 1], mult=[[1], [], []], rational=False, normalized=True),
            dict(kind='volume', deg=[1, 1, 2], mult=[[], [1], []], rational=True, normalized=True),
            dict(kind='volume', deg=[1, 2, 1], mult=[[], [], [1]], rational=False, normalized=True),      # degree_v > degree_w
            dict(kind='surface', deg=[2, 1], mult=[[], [1]], rational=False, normalized=True)]          # degree_u > degree_v
    if tier == 'thorough':
        out += [dict(kind='curve', deg=[5], mult=[[2, 1]], rational=True, normalized=False),
                dict(kind='surface', deg=[3, 3], mult=[[1], [2]], rational=True, normalized=True),
                dict(kind='volume', deg=[2, 2, 2], mult=[[1], [], [1]], rational=True, normalized=False)]
    return out


@scenario('C18', fns=['BSpline.Curve.evaluate_single', 'BSpline.Surface.evaluate_single', 'BSpline.Volume.evaluate_single',
                      'BSpline.Curve.evaluate', 'abstract.Curve.evalpts', 'abstract.Curve.domain', 'helpers.find_span_linear',
                      'helpers.basis_function'],
          quick=lambda: _ends_shapes('quick'), thorough=lambda: _ends_shapes('thorough'))
def ends(ctx, kind, deg, mult, rational, normalized):
    """requires: clamped knot vectors (end multiplicity degree+1; normalized=False: symbolic end knots a < b and
                 the object is built with normalize_kv=False), positive weights
       ensures : the shape evaluated at every corner of its domain is the corresponding corner control point;
                 obj.domain is [U[p], U[-p-1]]; normalised curves: evalpts[0] / evalpts[-1] are the first / last
                 control point"""
    nd = len(deg)
    kvs, sizes = [], []
    for a in range(nd):
        U, _inner, n = shapes.make_kv(ctx, deg[a], mult[a], prefix='abc'[a], normalized=normalized)
        kvs.append(U)
        sizes.append(n)
    total = 1
    for s in sizes:
        total *= s
    P = shapes.net(ctx, 'P', total, 2 if kind == 'curve' else 3)
    W = shapes.weights(ctx, 'w', total) if rational else None
    if kind == 'curve':
        obj = shapes.build_curve(ctx, deg[0], kvs[0], P, W, normalize_kv=normalized)
    elif kind == 'surface':
        obj = shapes.build_surface(ctx, deg[0], deg[1], kvs[0], kvs[1], P, sizes[0], sizes[1], W, normalize_kv=normalized)
    else:
        obj = shapes.build_volume(ctx, deg[0], deg[1], deg[2], kvs[0], kvs[1], kvs[2], P, sizes[0], sizes[1], sizes[2], W,
                                  normalize_kv=normalized)
    dom = obj.domain if nd > 1 else [obj.domain]
    for a in range(nd):
        ctx.check_eq_vec('domain[%d]' % a, dom[a], [kvs[a][0], kvs[a][-1]])
    corners = [[]]
    for a in range(nd):
        corners = [c + [e] for c in corners for e in (0, 1)]
    for c in corners:
        prm = [kvs[a][-1] if c[a] else kvs[a][0] for a in range(nd)]
        ijk = [(sizes[a] - 1) if c[a] else 0 for a in range(nd)] + [0, 0]
        if kind == 'curve':
            want = P[ijk[0]]
        elif kind == 'surface':
            want = P[ijk[1] + sizes[1] * ijk[0]]
        else:
            want = P[spec.layout(ijk[0], ijk[1], ijk[2], sizes[0], sizes[1])]
        got = obj.evaluate_single(prm[0] if kind == 'curve' else prm)
        ctx.check_eq_vec('corner%s=control_point' % ''.join(str(e) for e in c), got, want)
    # the sampled grid of a clamped shape starts on the first and ends on the last control point (every parametric dimension,
    # also on a knot vector that is kept as given)
    if not normalized:
        for a in range(nd):
            ctx.assume(ctx.gt(kvs[a][-1] - kvs[a][0], Fraction(1, 10 ** 7)))       # linalg.linspace tolerance (A1)
    ns = 3 if kind == 'curve' else 2
    obj.sample_size = ns
    pts = obj.evalpts
    ctx.check_true('evalpts.count', len(pts) == ns ** nd, 'len(evalpts) = %d, sample_size %d per direction' % (len(pts), ns))
    ctx.check_eq_vec('evalpts[0]=P[first]', pts[0], P[0])
    ctx.check_eq_vec('evalpts[-1]=P[last]', pts[-1], P[-1])


# ------------------------------------------------------------------------------------------------
# bounding box
# ------------------------------------------------------------------------------------------------
@scenario('C18', fns=['utilities.evaluate_bounding_box'],
          quick=[dict(n=1, dim=3), dict(n=2, dim=3), dict(n=3, dim=2), dict(n=4, dim=1)],
          thorough=[dict(n=1, dim=3), dict(n=2, dim=3), dict(n=3, dim=2), dict(n=4, dim=1), dict(n=3, dim=3), dict(n=5, dim=1)])
def bbox_contract(ctx, n, dim):
    """requires: n >= 1 points of dimension dim, every coordinate a free symbol (all orderings and ties explored)
       ensures : result is (min, max), two tuples of length dim; min_d <= P_i[d] <= max_d for all i; both attained"""
    ut = ctx.geomdl('utilities')
    P = [[ctx.num('P%d_%d' % (i, d)) for d in range(dim)] for i in range(n)]
    bb = ut.evaluate_bounding_box([list(p) for p in P])
    ctx.check_true('shape', isinstance(bb, tuple) and len(bb) == 2 and len(bb[0]) == dim and len(bb[1]) == dim)
    for d in range(dim):
        for i in range(n):
            ctx.check('min[%d]<=P[%d]' % (d, i), ctx.le(bb[0][d], P[i][d]))
            ctx.check('P[%d]<=max[%d]' % (i, d), ctx.le(P[i][d], bb[1][d]))
        ctx.check('min[%d].attained' % d, ctx.any(*[ctx.eq(bb[0][d], P[i][d]) for i in range(n)]))
        ctx.check('max[%d].attained' % d, ctx.any(*[ctx.eq(bb[1][d], P[i][d]) for i in range(n)]))
    ctx.check_eq_grid('tuple_input', ut.evaluate_bounding_box(tuple(tuple(p) for p in P)), bb)


def _perm(n, which):
    """a fixed permutation of range(n): the assumed increasing order of the symbolic coordinate"""
    if which == 'id':
        return list(range(n))
    if which == 'rev':
        return list(range(n - 1, -1, -1))
    return [(3 * i + 1) % n if n % 3 else (2 * i + 1) % n if n % 2 else (i + 1) % n for i in range(n)]      # 'mix'


def _uniform_kv(p, n):
    """concrete clamped knot vector, n control points, uniform interior knots"""
    k = n - p - 1
    return [F(0)] * (p + 1) + [F(i, k + 1) for i in range(1, k + 1)] + [F(1)] * (p + 1)


def _sorted_net(ctx, count, dim, perm, strict):
    """control points: coordinate 0 symbolic and assumed increasing along perm; other coordinates constants that
    are increasing in the index with a twist (d even: decreasing)"""
    P = []
    for i in range(count):
        pt = [ctx.num('P%d' % i)]
        for d in range(1, dim):
            c = F((i + 1) * (d + 2) + d * d, 1 + d)
            pt.append(ctx.lit(c if d % 2 else -c))
        P.append(pt)
    ctx.assume_sorted([P[i][0] for i in perm], strict=strict)
    return P


def _minmax(ctx, P, perm, dim):
    lo, hi = [P[perm[0]][0]], [P[perm[-1]][0]]
    for d in range(1, dim):
        lo.append(P[0][d] if d % 2 else P[-1][d])
        hi.append(P[-1][d] if d % 2 else P[0][d])
    return lo, hi


@scenario('C18', fns=['abstract.SplineGeometry.bbox', 'abstract.GeomdlBase.__deepcopy__', 'operations.translate',
                      'operations.scale', 'NURBS.Curve.ctrlpts', 'NURBS.Surface.ctrlpts', 'NURBS.Volume.ctrlpts'],
          quick=[dict(kind=k, how=h, first=f) for k in ('curve', 'surface', 'volume') for h in ('translate', 'deepcopy+set')
                 for f in ('copy', 'orig')])
def bbox_of_copies(ctx, kind, how, first):
    """requires: a rational shape with a symbolic net and weights; a moved copy of it (operations.translate with
                 inplace=False, or copy.deepcopy followed by the ctrlpts setter)
       ensures : read in either order, each object's bbox is the (min, max) of ITS OWN control points, its ends are its
                 own first / last control point, and ctrlpts reads back its own net"""
    import copy
    deg = {'curve': [1], 'surface': [1, 1], 'volume': [1, 1, 1]}[kind]
    sizes = [2] * len(deg)
    total = 2 ** len(deg)
    dim = 2 if kind == 'curve' else 3
    kvs = [[ctx.lit(0), ctx.lit(0), ctx.lit(1), ctx.lit(1)] for _ in deg]
    P = _sorted_net(ctx, total, dim, _perm(total, 'mix'), strict=False)      # one order of the symbolic coordinates (ties allowed)
    W = shapes.weights(ctx, 'w', total)
    if kind == 'curve':
        obj = shapes.build_curve(ctx, 1, kvs[0], P, W)
    elif kind == 'surface':
        obj = shapes.build_surface(ctx, 1, 1, kvs[0], kvs[1], P, 2, 2, W)
    else:
        obj = shapes.build_volume(ctx, 1, 1, 1, kvs[0], kvs[1], kvs[2], P, 2, 2, 2, W)
    vec = [ctx.lit(7), ctx.lit(-11), ctx.lit(13)][:dim]
    P2 = [[c + t for c, t in zip(pt, vec)] for pt in P]
    if how == 'translate':
        cp = ctx.geomdl('operations').translate(obj, list(vec), inplace=False)
    else:
        cp = copy.deepcopy(obj)
        cp.ctrlpts = [list(pt) for pt in P2]
    start = [ctx.lit(0)] * len(deg)
    stop = [ctx.lit(1)] * len(deg)

    def look(tag, o, net):
        ctx.check_eq_grid(tag + '.ctrlpts=own_net', o.ctrlpts, net)
        bb = o.bbox
        for d in range(dim):
            for i in range(total):
                ctx.check('%s.bbox.contains.own_P[%d][%d]' % (tag, i, d), ctx.all(ctx.le(bb[0][d], net[i][d]), ctx.le(net[i][d], bb[1][d])))
            ctx.check('%s.bbox.min_is_attained[%d]' % (tag, d), ctx.any(*[ctx.eq(bb[0][d], net[i][d]) for i in range(total)]))
            ctx.check('%s.bbox.max_is_attained[%d]' % (tag, d), ctx.any(*[ctx.eq(bb[1][d], net[i][d]) for i in range(total)]))
        ctx.check_eq_vec(tag + '.start=own_first_ctrlpt', o.evaluate_single(start[0] if kind == 'curve' else start), net[0])
        ctx.check_eq_vec(tag + '.end=own_last_ctrlpt', o.evaluate_single(stop[0] if kind == 'curve' else stop), net[-1])

    for who in (('copy', 'original') if first == 'copy' else ('original', 'copy')):
        look(who, cp if who == 'copy' else obj, P2 if who == 'copy' else P)
    look('original.again', obj, P)
    look('copy.again', cp, P2)


@scenario('C18', fns=['BSpline.Curve.evaluate', 'BSpline.Surface.evaluate', 'BSpline.Volume.evaluate', 'abstract.SplineGeometry.bbox',
                      'abstract.SplineGeometry.domain', 'linalg.linspace'],
          quick=[dict(kind=k, deg=d, sizes=z, rational=r) for k, d, z, r in
                 (('curve', [2], [4], False), ('surface', [1, 2], [3, 4], False), ('surface', [2, 1], [4, 3], True),
                  ('volume', [1, 1, 2], [2, 3, 4], False), ('volume', [2, 1, 1], [4, 2, 3], True))])
def unclamped_grid_in_bbox(ctx, kind, deg, sizes, rational):
    """requires: UNCLAMPED uniform knot vectors (concrete; the domain [U[p], U[n]] is a proper part of the knot range), an
                 ordered symbolic net, positive weights, sample size 3 per direction
       ensures : the default sampled grid (evalpts) stays inside the parametric domain: every sampled point lies in the
                 bounding box of the control net, the first / last sampled point is the shape at the lower / upper corner
                 of obj.domain, and there are 3^d of them"""
    nd = len(deg)
    kvs = [[ctx.lit(Fraction(i, sizes[a] + deg[a])) for i in range(sizes[a] + deg[a] + 1)] for a in range(nd)]
    total = 1
    for z in sizes:
        total *= z
    dim = 2 if kind == 'curve' else 3
    pm = _perm(total, 'mix')
    P = _sorted_net(ctx, total, dim, pm, strict=False)
    W = shapes.weights(ctx, 'w', total) if rational else None
    if kind == 'curve':
        obj = shapes.build_curve(ctx, deg[0], kvs[0], P, W)
        obj.sample_size = 3
    elif kind == 'surface':
        obj = shapes.build_surface(ctx, deg[0], deg[1], kvs[0], kvs[1], P, sizes[0], sizes[1], W)
        obj.sample_size_u, obj.sample_size_v = 3, 3
    else:
        obj = shapes.build_volume(ctx, deg[0], deg[1], deg[2], kvs[0], kvs[1], kvs[2], P, sizes[0], sizes[1], sizes[2], W)
        obj.sample_size_u, obj.sample_size_v, obj.sample_size_w = 3, 3, 3
    dom = obj.domain if nd > 1 else [obj.domain]
    for a in range(nd):
        ctx.check_eq_vec('domain[%d]=[U[p],U[n]]' % a, dom[a], [kvs[a][deg[a]], kvs[a][sizes[a]]])
    lo, hi = _minmax(ctx, P, pm, dim)
    pts = obj.evalpts
    ctx.check_true('grid.count', len(pts) == 3 ** nd, '%d sampled points' % len(pts))
    first = [dom[a][0] for a in range(nd)]
    last = [dom[a][1] for a in range(nd)]
    ctx.check_eq_vec('grid.first=shape(domain start)', pts[0], obj.evaluate_single(first[0] if nd == 1 else first))
    ctx.check_eq_vec('grid.last=shape(domain end)', pts[-1], obj.evaluate_single(last[0] if nd == 1 else last))
    if not rational:
        for k, q in enumerate(pts):
            for d in range(dim):
                ctx.check('grid[%d][%d].inside_bbox' % (k, d), ctx.all(ctx.le(lo[d], q[d]), ctx.le(q[d], hi[d])), nonlinear=True)


def _inside_shapes(tier):
    out = [dict(kind='curve', deg=[1], sizes=[3], rational=False, perm='mix'),
           dict(kind='curve', deg=[2], sizes=[4], rational=False, perm='id'),
           dict(kind='curve', deg=[2], sizes=[5], rational=False, perm='mix'),
           dict(kind='curve', deg=[3], sizes=[5], rational=False, perm='rev'),
           dict(kind='curve', deg=[2], sizes=[3], rational=True, perm='mix'),
           dict(kind='curve', deg=[1], sizes=[3], rational=True, perm='rev'),
           dict(kind='surface', deg=[1, 1], sizes=[2, 2], rational=False, perm='mix'),
           dict(kind='surface', deg=[2, 1], sizes=[3, 2], rational=False, perm='rev'),
           dict(kind='surface', deg=[1, 1], sizes=[2, 2], rational=True, perm='id'),
           dict(kind='volume', deg=[1, 1, 1], sizes=[2, 2, 2], rational=False, perm='mix')]
    if tier == 'thorough':
        out += [dict(kind='curve', deg=[3], sizes=[6], rational=False, perm='mix'),
                dict(kind='curve', deg=[2], sizes=[4], rational=True, perm='mix'),
                dict(kind='surface', deg=[2, 2], sizes=[3, 4], rational=False, perm='mix')]
    return out


@scenario('C18', fns=['abstract.SplineGeometry.bbox', 'utilities.evaluate_bounding_box', 'BSpline.Curve.evaluate_single',
                      'BSpline.Surface.evaluate_single', 'BSpline.Volume.evaluate_single', 'abstract.Curve.evalpts',
                      'abstract.Surface.evalpts', 'NURBS.Curve.ctrlpts'],
          quick=lambda: _inside_shapes('quick'), thorough=lambda: _inside_shapes('thorough'))
def inside_bbox(ctx, kind, deg, sizes, rational, perm):
    """requires: concrete uniform clamped knots, parameter(s) anywhere in the domain, positive weights, the symbolic
                 control point coordinate ordered along `perm` (non-strict: ties allowed)
       ensures : obj.bbox == (min, max) of the control points per coordinate; C_d - min_d and max_d - C_d are
                 non-negative combinations (identity + sign of every factor); min_d <= C_d(u) <= max_d directly;
                 every sampled point of evalpts inside bbox"""
    nd = len(deg)
    kvs = [[ctx.lit(k) for k in _uniform_kv(deg[a], sizes[a])] for a in range(nd)]
    total = 1
    for s in sizes:
        total *= s
    dim = 2 if kind == 'curve' else 3
    pm = _perm(total, perm)
    P = _sorted_net(ctx, total, dim, pm, strict=False)
    W = shapes.weights(ctx, 'w', total) if rational else None
    prm = [shapes.param_in(ctx, nm, ctx.lit(0), ctx.lit(1)) for nm in ('u', 'v', 'w')[:nd]]
    if kind == 'curve':
        obj = shapes.build_curve(ctx, deg[0], kvs[0], P, W)
    elif kind == 'surface':
        obj = shapes.build_surface(ctx, deg[0], deg[1], kvs[0], kvs[1], P, sizes[0], sizes[1], W)
    else:
        obj = shapes.build_volume(ctx, deg[0], deg[1], deg[2], kvs[0], kvs[1], kvs[2], P, sizes[0], sizes[1], sizes[2], W)
    lo, hi = _minmax(ctx, P, pm, dim)
    bb = obj.bbox
    ctx.check_true('bbox.shape', len(bb) == 2 and len(bb[0]) == dim and len(bb[1]) == dim)
    ctx.check_eq_vec('bbox.min=min(ctrlpts)', bb[0], lo)
    ctx.check_eq_vec('bbox.max=max(ctrlpts)', bb[1], hi)
    for i in range(total):
        for d in range(dim):
            ctx.check('bbox.contains.P[%d][%d]' % (i, d), ctx.all(ctx.le(bb[0][d], P[i][d]), ctx.le(P[i][d], bb[1][d])))
    # active set and lambdas from the spec
    spans = [spec.span_spec(deg[a], kvs[a], sizes[a], prm[a]) for a in range(nd)]
    rows = [spec.basis_row(deg[a], kvs[a], spans[a], prm[a]) for a in range(nd)]
    cells = [[]]
    for a in range(nd):
        cells = [c + [i] for c in cells for i in range(spans[a] - deg[a], spans[a] + 1)]

    def flat(c):
        if nd == 1:
            return c[0]
        if nd == 2:
            return c[1] + sizes[1] * c[0]
        return spec.layout(c[0], c[1], c[2], sizes[0], sizes[1])

    coef = []
    for c in cells:
        t = 1
        for a in range(nd):
            t = t * rows[a][c[a]]
        coef.append(t)
    pts = [P[flat(c)] for c in cells]
    if rational:
        ws = [W[flat(c)] for c in cells]
        wf = _total(t * w for t, w in zip(coef, ws))
        ctx.assume_pos(wf, 'L.weight_function_positive')
        lam = [t * w / wf for t, w in zip(coef, ws)]
    else:
        lam = coef
    got = obj.evaluate_single(prm[0] if kind == 'curve' else prm)
    for a in range(nd):
        for i in range(spans[a] - deg[a], spans[a] + 1):
            _nonneg(ctx, 'basis.dir%d[%d]>=0' % (a, i - spans[a] + deg[a]), rows[a][i])
    for d in range(dim):
        ctx.check_eq('C[%d]-min=sum(lambda*(P-min))' % d, got[d] - bb[0][d], _total(l * (p[d] - bb[0][d]) for l, p in zip(lam, pts)))
        ctx.check_eq('max-C[%d]=sum(lambda*(max-P))' % d, bb[1][d] - got[d], _total(l * (bb[1][d] - p[d]) for l, p in zip(lam, pts)))
        for k, p in enumerate(pts):
            ctx.check('active[%d][%d]-min>=0' % (k, d), ctx.le(bb[0][d], p[d]))
            ctx.check('max-active[%d][%d]>=0' % (k, d), ctx.le(p[d], bb[1][d]))
        if nd <= 2:
            _nonneg(ctx, 'inside.C[%d]>=min' % d, got[d] - bb[0][d])
            _nonneg(ctx, 'inside.C[%d]<=max' % d, bb[1][d] - got[d])
    # sampled grid: concrete parameters (non-rational: linear obligations)
    if kind == 'curve':
        obj.sample_size = 5
        grid = [[F(i, 4)] for i in range(5)]
    elif kind == 'surface':
        obj.sample_size_u, obj.sample_size_v = 3, 3
        grid = [[F(i, 2), F(j, 2)] for i in range(3) for j in range(3)]
    else:
        obj.sample_size_u, obj.sample_size_v, obj.sample_size_w = 2, 3, 2
        grid = [[F(i), F(j, 2), F(k)] for i in range(2) for j in range(3) for k in range(2)]
    if rational:
        wnet = [[w] for w in W]
        for g in grid:
            g = [ctx.lit(x) for x in g]
            if kind == 'curve':
                wv = spec.curve_point(deg[0], kvs[0], wnet, g[0])[0]
            else:
                wv = spec.surface_point(deg[0], deg[1], kvs[0], kvs[1], wnet, sizes[0], sizes[1], g[0], g[1])[0]
            ctx.assume_pos(wv, 'L.weight_function_positive')
    pts_ = obj.evalpts
    ctx.check_true('evalpts.count', len(pts_) == len(grid))
    for k, pt in enumerate(pts_):
        for d in range(dim):
            if rational:
                _nonneg(ctx, 'evalpts[%d][%d]>=bbox.min' % (k, d), pt[d] - bb[0][d])
                _nonneg(ctx, 'evalpts[%d][%d]<=bbox.max' % (k, d), bb[1][d] - pt[d])
            else:
                ctx.check('evalpts[%d][%d].inside_bbox' % (k, d), ctx.all(ctx.le(bb[0][d], pt[d]), ctx.le(pt[d], bb[1][d])))


# ------------------------------------------------------------------------------------------------
# length
# ------------------------------------------------------------------------------------------------
_DIRS = [(F(3, 5), F(4, 5)), (F(12, 13), F(5, 13)), (F(4, 5), F(-3, 5)), (F(5, 13), F(12, 13)), (F(-8, 17), F(15, 17))]


def _lattice_polygon(n):
    pt = [F(1), F(2)]
    out = [list(pt)]
    for i in range(1, n):
        dv = _DIRS[(i - 1) % len(_DIRS)]
        ln = F(i % 3 + 1)
        pt = [a + ln * b for a, b in zip(pt, dv)]
        out.append(list(pt))
    return out


def _length_shapes(tier):
    out = [dict(p=1, n=2, samples=3, net='sym'), dict(p=1, n=3, samples=3, net='sym'), dict(p=2, n=3, samples=3, net='sym'),
           dict(p=1, n=3, samples=5, net='sym'), dict(p=3, n=4, samples=3, net='sym'),
           dict(p=1, n=3, samples=3, net='lattice'), dict(p=1, n=4, samples=4, net='lattice'), dict(p=1, n=5, samples=5, net='lattice'),
           dict(p=2, n=4, samples=4, net='lattice'), dict(p=3, n=5, samples=4, net='lattice'),
           # a sub-range was evaluated before the length is asked for: the length is still that of the whole curve
           dict(p=1, n=3, samples=3, net='sym', partial=True), dict(p=2, n=4, samples=4, net='lattice', partial=True),
           # a knot vector kept as given on [1, 4] (normalize_kv=False)
           dict(p=1, n=3, samples=3, net='sym', shift=True), dict(p=2, n=4, samples=3, net='lattice', shift=True),
           # unclamped knot vectors: the length is that of the curve over its parametric domain
           dict(p=2, n=4, samples=3, net='lattice', clamped=False), dict(p=1, n=3, samples=3, net='sym', clamped=False)]
    if tier == 'thorough':
        out += [dict(p=2, n=3, samples=4, net='sym'), dict(p=1, n=4, samples=4, net='sym'), dict(p=2, n=4, samples=3, net='sym'),
                dict(p=1, n=6, samples=6, net='lattice')]
    return out


@scenario('C18', fns=['operations.length_curve', 'linalg.point_distance', 'abstract.Curve.evalpts'],
          quick=lambda: _length_shapes('quick'), thorough=lambda: _length_shapes('thorough'))
def length(ctx, p, n, samples, net, partial=False, shift=False, clamped=True):
    """requires: non-rational clamped curve, uniform concrete knots, `samples` evaluated points;
                 net='sym': one symbolic coordinate per control point, 'lattice': control polygon with rational steps
       ensures : length_curve == sum of |evalpts[i+1] - evalpts[i]|  >=  |evalpts[-1] - evalpts[0]| = |P[-1] - P[0]|;
                 a non-curve is rejected.  (The upper bound by the control polygon is excluded, see module docstring.)"""
    ops = ctx.geomdl('operations')
    U = [ctx.lit(1 + 3 * k if shift else k) for k in _uniform_kv(p, n)]
    if not clamped:
        U = [ctx.lit(Fraction(i, n + p)) for i in range(n + p + 1)]      # unclamped uniform: the domain is [U[p], U[n]]
    if net == 'sym':
        P = shapes.net(ctx, 'P', n, 2)
    else:
        P = [[ctx.lit(c) for c in pt] for pt in _lattice_polygon(n)]
    crv = shapes.build_curve(ctx, p, U, P, normalize_kv=not shift)
    crv.sample_size = samples
    if partial:
        crv.evaluate(start=Fraction(1, 4), stop=Fraction(3, 4))
    L = ops.length_curve(crv)
    if partial:
        pts = crv.evaluate_list([ctx.lit(Fraction(i, samples - 1)) for i in range(samples)])
    else:
        pts = crv.evalpts
    ctx.check_true('samples', len(pts) == samples)

    def dist(a, b):
        return _sqrt(ctx, _total((x - y) * (x - y) for x, y in zip(a, b)))

    ctx.check_eq('length=polyline', L, _total(dist(pts[i], pts[i + 1]) for i in range(samples - 1)))
    if clamped:
        ctx.check_eq_vec('start=P[0]', pts[0], P[0])
        ctx.check_eq_vec('end=P[-1]', pts[-1], P[-1])
        chord = dist(P[0], P[-1])
    else:       # the polyline runs over the parametric domain [U[p], U[n]]: from C(U[p]) to C(U[n])
        ctx.check_eq_vec('start=C(domain start)', pts[0], crv.evaluate_single(U[p]))
        ctx.check_eq_vec('end=C(domain end)', pts[-1], crv.evaluate_single(U[n]))
        chord = dist(crv.evaluate_single(U[p]), crv.evaluate_single(U[n]))
    ctx.check_eq('chord=|evalpts[-1]-evalpts[0]|', dist(pts[0], pts[-1]), chord)
    ctx.check('length>=0', ctx.ge(L, 0))
    # triangle inequality, one vertex at a time: t_k = |evalpts[k] - evalpts[0]| <= t_(k-1) + |evalpts[k] - evalpts[k-1]|
    # (each step is one obligation on three sqrt atoms); the claim is a linear consequence of the steps
    nl = ctx.mode == 'sym' and not ctx.is_const(L)
    t = [0, dist(pts[0], pts[1])]
    steps = []
    for k in range(2, samples):
        t.append(dist(pts[0], pts[k]))
        c = ctx.le(t[k], t[k - 1] + dist(pts[k - 1], pts[k]))
        ctx.check('chord<=length.triangle[%d]' % k, c, nonlinear=nl)
        steps.append(c)
    ctx.check('chord<=length.from_triangles', ctx.implies(ctx.all(*steps), ctx.le(chord, L)) if steps else ctx.le(chord, L))
    if samples <= 3 or not nl:
        ctx.check('chord<=length', ctx.le(chord, L), nonlinear=nl)
    srf = ctx.geomdl('BSpline').Surface()
    ctx.check_raises('non_curve_rejected', ctx.geomdl('exceptions').GeomdlException, ops.length_curve, srf)


# ------------------------------------------------------------------------------------------------
def _sampled_shapes(tier):
    out = [dict(p=2, n=4, clamped=True, samples=3, order='ascending'), dict(p=2, n=4, clamped=True, samples=3, order='descending'),
           dict(p=2, n=4, clamped=False, samples=3, order='default'), dict(p=1, n=3, clamped=False, samples=4, order='default'),
           dict(p=3, n=5, clamped=False, samples=3, order='descending')]
    if tier == 'thorough':
        out += [dict(p=3, n=6, clamped=True, samples=5, order='descending'), dict(p=2, n=5, clamped=False, samples=5, order='default')]
    return out


@scenario('C18', fns=['BSpline.Curve.evaluate', 'abstract.Curve.evalpts', 'helpers.find_spans', 'helpers.basis_functions',
                      'evaluators.CurveEvaluator.evaluate', 'abstract.SplineGeometry.bbox'],
          quick=lambda: _sampled_shapes('quick'), thorough=lambda: _sampled_shapes('thorough'))
def sampled_points_in_hull(ctx, p, n, clamped, samples, order):
    """requires: a non-rational curve on concrete uniform knots (clamped: normalised; unclamped: normalize_kv=False, domain
                 [U[p], U[n]] strictly inside the knot range), symbolic control points; the sampled range is the default
                 one, or an explicit ascending / descending [start, stop]
       ensures : every sampled point is the convex combination sum B_i(t_k) P_i of the control points active at its own
                 parameter t_k (spec basis: non-negative, sums to one), where t_k are the evenly spaced parameters of the
                 requested range - hence inside the hull and the bounding box; the number of samples is as requested"""
    if clamped:
        U = [ctx.lit(0)] * (p + 1) + [ctx.lit(Fraction(k, n - p)) for k in range(1, n - p)] + [ctx.lit(1)] * (p + 1)
    else:
        m = n + p
        U = [ctx.lit(Fraction(3 * k, 2)) for k in range(m + 1)]          # knots 0, 3/2, 3, ...: not normalised
    lo, hi = U[p], U[n]
    P = shapes.net(ctx, 'P', n, 2)
    crv = shapes.build_curve(ctx, p, U, P, None, normalize_kv=clamped)
    crv.sample_size = samples
    if order == 'default':
        pts = crv.evalpts
        a, b = lo, hi
    elif order == 'ascending':
        crv.evaluate(start=lo, stop=hi)
        pts = crv.evalpts
        a, b = lo, hi
    else:
        crv.evaluate(start=hi, stop=lo)
        pts = crv.evalpts
        a, b = hi, lo
    ctx.check_true('samples.count', len(pts) == samples, 'len(evalpts)=%d, requested %d' % (len(pts), samples))
    for k in range(samples):
        t = a + (b - a) * Fraction(k, samples - 1)
        s = spec.span_spec(p, U, n, t)
        row = spec.basis_row(p, U, s, t)
        lam = [row[i] for i in range(s - p, s + 1)]
        ctx.check_true('sample%d.weights_nonnegative_sum_one' % k,
                       all(ctx.as_fraction(x) >= 0 for x in lam) and sum(ctx.as_fraction(x) for x in lam) == 1)
        want = [sum((lam[i] * P[s - p + i][d] for i in range(p + 1)), ctx.lit(0)) for d in range(2)]
        ctx.check_eq_vec('sample%d=convex_combination_of_active_points' % k, pts[k], want)
