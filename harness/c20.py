"""C20 Planar predicates and spatial queries (bounded tier).

Contracts on ray.intersect, linalg.is_left / wn_poly / convex_hull, voxelize.voxelize and operations.find_ctrlpts; the
postconditions are the clauses of the property statement.  The code's tolerances are executed as written, so the
preconditions are tolerance-separated (GUIDE): "crossing" means some component of d1 x d2 is at least tol = 2**-44 in
absolute value (the default of ray.intersect, passed explicitly because the default expression is a native float), "skew"
means the distance of the lines is at least tol, "parallel" means d1 x d2 = 0 exactly.

  ray_crossing   lines built through a common symbolic point X (every pair of crossing lines has this form): status
                 INTERSECT, (t1, t2) is the unique solution, ray1.eval(t1) = ray2.eval(t2) = X exactly
  ray_parallel   d2 = k d1: status COLINEAR (parallel and coincident)
  ray_skew       lines at distance |h| |d1 x d2| >= tol: status SKEW
  is_left        = twice the signed area (identity) and its symmetries
  winding        wn_poly(P, V)  <=>  winding number != 0, for closed polygons (self-intersections allowed) and P on no edge;
                 the spec counts signed crossings of the vertical ray, the code those of the horizontal ray
  convex_hull    points in general position: subset of the input, counter-clockwise, every input point on or left of
                 every hull edge (degree-2 order obligations: ctx.check with sign_free_le/lt, nlsat)
  voxel_*        grid = prod(grid_size) voxels that cover the bounding box; filled[k] = 1 iff a sampled point is inside voxel k
                 (use_mp / num_procs variants: C17)
  find_ctrlpts_* the (p+1) [x (q+1)] window of control points of the knot span(s) of the parameter(s) (spec.span_spec)

Floating-point agreement ("agree with exact rational arithmetic") is vacuous under A1 and not claimed (DESIGN section 8)."""
import itertools
from fractions import Fraction

from .api import scenario
from . import shapes, spec, assumptions

assumptions.PROPS['C20'] = {'level': 'other', 'assume': ['A1', 'A2', 'A4', 'A5', 'A6']}

RAY_TOL = Fraction(1, 2 ** 44)        # ray.intersect default: (1 << 8) * sys.float_info.epsilon = 2**-44


def _sum(it):
    t = 0
    for x in it:
        t = t + x
    return t


def cross3(a, b):
    return [a[1] * b[2] - a[2] * b[1], a[2] * b[0] - a[0] * b[2], a[0] * b[1] - a[1] * b[0]]


def dot(a, b):
    return _sum(x * y for x, y in zip(a, b))


def embed(v, dim):
    return list(v) + [0] * (3 - dim)


def _far(ctx, c, tol):
    return ctx.any(ctx.ge(c, tol), ctx.le(c, -tol))


def _rays(ctx, P1, D1, P2, D2):
    ray = ctx.geomdl('ray')
    r1 = ray.Ray(list(P1), [p + d for p, d in zip(P1, D1)])
    r2 = ray.Ray(list(P2), [p + d for p, d in zip(P2, D2)])
    return ray, r1, r2


@scenario('C20', fns=['ray.intersect', 'ray._intersect2d', 'ray._intersect3d', 'ray.Ray.eval', 'ray.Ray.d', 'linalg.vector_is_zero'],
          quick=[dict(dim=2, big=2), dict(dim=3, big=0), dict(dim=3, big=1), dict(dim=3, big=2)])
def ray_crossing(ctx, dim, big):
    """requires: two lines through a common point X: ray_k starts at X - s_k d_k with direction d_k; the directions are
                 not parallel: component `big` of d1 x d2 is at least the tolerance of the code in absolute value
       ensures : status INTERSECT, the parameters are the unique solution (t1, t2) = (s1, s2) and both rays evaluate to X"""
    X = ctx.point('X', dim)
    d1, d2 = ctx.point('d', dim), ctx.point('e', dim)
    s1, s2 = ctx.num('s1'), ctx.num('s2')
    n = cross3(embed(d1, dim), embed(d2, dim))
    ctx.assume(_far(ctx, n[big], RAY_TOL))
    P1 = [x - s1 * d for x, d in zip(X, d1)]
    P2 = [x - s2 * d for x, d in zip(X, d2)]
    ray, r1, r2 = _rays(ctx, P1, d1, P2, d2)
    t1, t2, st = ray.intersect(r1, r2, tol=ctx.lit(RAY_TOL))
    ctx.check_true('status=INTERSECT', st == ray.RayIntersection.INTERSECT, 'status = %r' % (st,))
    ctx.check_eq('t1.unique_solution', t1, s1)
    ctx.check_eq('t2.unique_solution', t2, s2)
    ctx.check_eq_vec('ray1.eval(t1)=X', r1.eval(t1), X)
    ctx.check_eq_vec('ray2.eval(t2)=X', r2.eval(t2), X)


@scenario('C20', fns=['ray.intersect', 'ray._intersect2d', 'ray._intersect3d', 'linalg.vector_is_zero'],
          quick=[dict(dim=d, case=c) for d in (2, 3) for c in ('parallel', 'coincident')])
def ray_parallel(ctx, dim, case):
    """requires: d2 = k d1 (k any real, d1 any vector); parallel: ray 2 starts anywhere; coincident: ray 2 starts on line 1
       ensures : status COLINEAR (the code's name for parallel-or-coincident)"""
    P1, d1 = ctx.point('P', dim), ctx.point('d', dim)
    k = ctx.num('k')
    d2 = [k * x for x in d1]
    if case == 'coincident':
        m = ctx.num('m')
        P2 = [p + m * x for p, x in zip(P1, d1)]
    else:
        P2 = ctx.point('Q', dim)
    ray, r1, r2 = _rays(ctx, P1, d1, P2, d2)
    t1, t2, st = ray.intersect(r1, r2, tol=ctx.lit(RAY_TOL))
    ctx.check_true('status=COLINEAR', st == ray.RayIntersection.COLINEAR, 'status = %r' % (st,))


def _skew_shapes(tier):
    out = [dict(big=2, d=[1, 0, 0], e=[0, 1, 0]), dict(big=0, d=[1, 2, 2], e=[2, 1, -2]), dict(big=1, d=[1, 1, 0], e=[0, 1, 1]),
           dict(big=2, d=[3, -1, 2], e=[1, 1, 1])]
    if tier == 'thorough':
        out += [dict(big=0, d=None, e=[1, 2, -1]), dict(big=1, d=None, e=[0, 1, 3]), dict(big=2, d=None, e=[2, -1, 0])]
    return out


@scenario('C20', fns=['ray.intersect', 'ray._intersect3d', 'ray.Ray.eval', 'linalg.point_distance', 'linalg.vector_is_zero'],
          quick=lambda: _skew_shapes('quick'), thorough=lambda: _skew_shapes('thorough'))
def ray_skew(ctx, big, d, e):
    """requires: 3-D lines with directions d1 (the stated constants, or fully symbolic when d is None) and d2 (constants),
                 n = d1 x d2 with component `big` at least the tolerance in absolute value; line 1 passes through a
                 symbolic point X, line 2 through X + h n; the distance |h| |n| of the lines is at least the tolerance;
                 the ray origins are anywhere on their lines (symbolic s1, s2)
       ensures : status SKEW"""
    X = ctx.point('X', 3)
    d1 = ctx.point('d', 3) if d is None else [ctx.lit(c) for c in d]
    d2 = [ctx.lit(c) for c in e]
    s1, s2, h = ctx.num('s1'), ctx.num('s2'), ctx.num('h')
    n = cross3(d1, d2)
    ctx.assume(_far(ctx, n[big], RAY_TOL))
    ctx.assume(ctx.ge(h * h * dot(n, n), RAY_TOL * RAY_TOL))
    P1 = [x - s1 * c for x, c in zip(X, d1)]
    P2 = [x + h * c - s2 * k for x, c, k in zip(X, n, d2)]
    ray, r1, r2 = _rays(ctx, P1, d1, P2, d2)
    t1, t2, st = ray.intersect(r1, r2, tol=ctx.lit(RAY_TOL))
    ctx.check_true('status=SKEW', st == ray.RayIntersection.SKEW, 'status = %r' % (st,))


@scenario('C20', fns=['ray.intersect', 'ray.Ray.__init__'], quick=[dict()])
def ray_arguments(ctx):
    """ensures: rays of different dimension, non-Ray arguments and rays of dimension 4 are rejected"""
    ray = ctx.geomdl('ray')
    a = ray.Ray([ctx.num('x'), ctx.num('y')], [ctx.lit(1), ctx.lit(2)])
    b = ray.Ray([ctx.lit(0), ctx.lit(0), ctx.lit(0)], [ctx.lit(1), ctx.lit(2), ctx.num('z')])
    ctx.check_raises('dimension_mismatch', ValueError, ray.intersect, a, b)
    ctx.check_raises('not_a_ray', TypeError, ray.intersect, a, [0, 1])
    c = ray.Ray([ctx.lit(0)] * 4, [ctx.lit(1)] * 4)
    ctx.check_raises('dimension_4', NotImplementedError, ray.intersect, c, c)
    ctx.check_raises('points_of_different_size', ValueError, ray.Ray, [0, 0], [1, 1, 1])
    ctx.check_eq_vec('eval(0)=p1', a.eval(0), [ctx.num('x'), ctx.num('y')])
    ctx.check_eq_vec('eval(1)=p2', a.eval(1), [1, 2])


# ------------------------------------------------------------------------------------------------
# planar predicates
# ------------------------------------------------------------------------------------------------
def area2(a, b, c):
    """twice the signed area of the triangle a, b, c ( > 0: counter-clockwise, c left of a -> b)"""
    return (b[0] - a[0]) * (c[1] - a[1]) - (c[0] - a[0]) * (b[1] - a[1])


def _pts(ctx, name, n):
    return [[ctx.num('%s%dx' % (name, i)), ctx.num('%s%dy' % (name, i))] for i in range(n)]


@scenario('C20', fns=['linalg.is_left', 'linalg.wn_poly'], quick=[dict(scale=10), dict(scale=10 ** 8)],
          # integer coordinates are exact in Python (arbitrary precision): the same contract at run time on the real ints
          native=lambda tier: [dict(scale=10 ** 8), dict(scale=10 ** 11)])
def is_left_integer_grid(ctx, scale):
    """requires: points with (large) integer coordinates, handed over as Python ints
       ensures : the sign of is_left is the sign of the exact determinant, and wn_poly classifies the query points next
                 to a long edge as exact rational arithmetic does"""
    la = ctx.geomdl('linalg')
    num = (lambda v: v) if ctx.mode == 'float' else ctx.lit          # native runs: real ints, not floats
    sgn = lambda v: (v > 0) - (v < 0)
    k = scale
    cases = [((0, 0), (2 * k + 2, 2 * k), (k + 2, k + 1)), ((0, 0), (2 * k + 2, 2 * k), (k, k)), ((0, 0), (2 * k + 2, 2 * k), (k + 1, k)),
             ((3, -k), (3 * k + 1, 2 * k + 5), (k + 2, 1)), ((-k, -k), (k + 1, k), (1, 0))]
    for n, (p0, p1, p2) in enumerate(cases):
        exact = (p1[0] - p0[0]) * (p2[1] - p0[1]) - (p2[0] - p0[0]) * (p1[1] - p0[1])
        got = la.is_left([num(c) for c in p0], [num(c) for c in p1], [num(c) for c in p2])
        ctx.check_true('is_left.sign[%d]' % n, sgn(got) == sgn(exact), 'is_left(%r, %r, %r) = %r, exact determinant %r' % (p0, p1, p2, got, exact))
    # a thin triangle: query points one grid step inside / outside its long edge
    tri = [(0, 0), (2 * k + 2, 2 * k), (0, 2 * k)]
    poly = [[num(c) for c in q] for q in tri + tri[:1]]
    det = lambda a, b, c: (b[0] - a[0]) * (c[1] - a[1]) - (c[0] - a[0]) * (b[1] - a[1])
    for n, q in enumerate(((k, k), (k + 2, k + 1), (k + 1, k + 1), (k + 2, k), (k + 3, k + 2), (2 * k, 2 * k - 2), (2 * k - 1, 2 * k - 2))):
        signs = [sgn(det(tri[i], tri[(i + 1) % 3], q)) for i in range(3)]
        if 0 in signs:
            continue                      # on the boundary: not classified by the statement
        inside = signs[0] == signs[1] == signs[2]
        got = la.wn_poly([num(c) for c in q], poly)
        ctx.check_true('wn_poly.next_to_long_edge[%d]' % n, bool(got) == inside, 'wn_poly(%r) = %r, exact: inside=%r' % (q, got, inside))


@scenario('C20', fns=['linalg.is_left'], quick=[dict()])
def is_left(ctx):
    """ensures: is_left(p0, p1, p2) = twice the signed area of (p0, p1, p2) = determinant |p1-p0, p2-p0|; antisymmetric
                under exchange of two points, invariant under cyclic rotation, zero for a repeated point"""
    la = ctx.geomdl('linalg')
    a, b, c = _pts(ctx, 'p', 3)
    got = la.is_left(a, b, c)
    shoelace = a[0] * b[1] - b[0] * a[1] + b[0] * c[1] - c[0] * b[1] + c[0] * a[1] - a[0] * c[1]
    ctx.check_eq('is_left=signed_area', got, shoelace)
    ctx.check_eq('is_left.cyclic', la.is_left(b, c, a), got)
    ctx.check_eq('is_left.antisymmetric', la.is_left(b, a, c), -got)
    ctx.check_eq('is_left.degenerate', la.is_left(a, b, a), 0)
    ctx.check_eq('is_left.on_line', la.is_left(a, b, [a[0] + ctx.num('t') * (b[0] - a[0]), a[1] + ctx.num('t') * (b[1] - a[1])]), 0)


def winding_spec(P, V):
    """winding number of the closed polygon V[0..n] (V[n] = V[0]) about P by the signed crossings of the *vertical upward*
    ray from P (the code under contract counts crossings of the horizontal ray to the right): an edge that passes
    above P from left to right turns clockwise about P (-1), from right to left counter-clockwise (+1)"""
    wn = 0
    for a, b in zip(V, V[1:]):
        if a[0] <= P[0]:
            if b[0] > P[0] and area2(a, b, P) < 0:
                wn -= 1
        else:
            if b[0] <= P[0] and area2(a, b, P) > 0:
                wn += 1
    return wn


def off_boundary(ctx, P, V):
    """P is on no edge (closed segment) of the polygon"""
    for a, b in zip(V, V[1:]):
        ctx.assume(ctx.any(ctx.ne(area2(a, b, P), 0),
                           ctx.gt((P[0] - a[0]) * (P[0] - b[0]), 0), ctx.gt((P[1] - a[1]) * (P[1] - b[1]), 0)))


@scenario('C20', fns=['linalg.wn_poly', 'linalg.is_left'],
          quick=[dict(n=3, fixed=2), dict(n=3, fixed=4), dict(n=4, fixed=6), dict(n=5, fixed=8)],
          thorough=[dict(n=3, fixed=0), dict(n=3, fixed=2), dict(n=4, fixed=3), dict(n=4, fixed=4), dict(n=4, fixed=6), dict(n=5, fixed=7),
                    dict(n=5, fixed=8)])
def winding(ctx, n, fixed):
    """requires: closed polygon with n vertices (self-intersections allowed; the first `fixed` coordinates of the vertex list
                 are the stated constants, every other coordinate and the query point symbolic), query point on no edge
       ensures : wn_poly(P, V) is True iff the winding number of V about P is non-zero (independent spec: signed crossings
                 of the vertical ray; the code uses the horizontal ray)"""
    la = ctx.geomdl('linalg')
    consts = [0, 0, 4, 1, 3, 5, -1, 4, -2, 1]
    V = _pts(ctx, 'v', n)
    k = 0
    for pt in V:
        for c in range(2):
            if k < fixed:
                pt[c] = ctx.lit(consts[k])
            k += 1
    V = V + [V[0]]
    P = [ctx.num('px'), ctx.num('py')]
    off_boundary(ctx, P, V)
    got = la.wn_poly(P, V)
    ctx.check_true('wn_poly.returns_bool', isinstance(got, bool))
    want = winding_spec(P, V)
    ctx.check_true('wn_poly=(winding!=0)', got == (want != 0), 'wn_poly = %r, winding number = %d' % (got, want))


def _hull_shapes(tier):
    out = [dict(n=3, order=[0, 1, 2]), dict(n=3, order=[2, 0, 1]), dict(n=4, order=[0, 1, 2, 3]), dict(n=4, order=[2, 0, 3, 1])]
    if tier == 'thorough':
        out += [dict(n=4, order=list(o)) for o in itertools.permutations(range(4)) if list(o) not in ([0, 1, 2, 3], [2, 0, 3, 1])]
        out += [dict(n=5, order=[0, 1, 2, 3, 4]), dict(n=5, order=[3, 1, 4, 0, 2]), dict(n=5, order=[4, 3, 2, 1, 0])]
    else:
        out += [dict(n=5, order=[3, 1, 4, 0, 2])]
    # points sharing an abscissa (ties[i]: q_i.x == q_{i+1}.x, q_i.y < q_{i+1}.y), handed over upper point first
    out += [dict(n=4, order=[1, 0, 3, 2], ties=[0, 2]), dict(n=4, order=[3, 2, 1, 0], ties=[0]), dict(n=5, order=[2, 1, 4, 0, 3], ties=[1, 3]),
            dict(n=4, order=[0, 2, 1, 3], ties=[1]),
            # three points on one vertical line (the middle one is not a hull vertex), handed over middle / top first
            dict(n=4, order=[1, 0, 2, 3], ties=[0, 1]), dict(n=4, order=[3, 2, 1, 0], ties=[1, 2]),
            dict(n=5, order=[2, 4, 1, 3, 0], ties=[1, 2])]
    return out


@scenario('C20', fns=['linalg.convex_hull'], quick=lambda: _hull_shapes('quick'), thorough=lambda: _hull_shapes('thorough'))
def convex_hull(ctx, n, order, ties=()):
    """requires: n points, lexicographically sorted q_0 < q_1 < ... (different abscissae except the pairs in `ties`, which
                 share x and differ in y), no three collinear,
                 handed to the function in the stated order (`order` permutes the sorted points)
       ensures : the hull is a list of input points without repetition, at least 3 of them, in counter-clockwise order
                 (every consecutive triple turns left) and every input point is on or to the left of every hull edge;
                 the input list is not reordered"""
    la = ctx.geomdl('linalg')
    Q = _pts(ctx, 'q', n)
    for i in ties:
        Q[i + 1] = [Q[i][0], Q[i + 1][1]]
        ctx.assume(ctx.lt(Q[i][1], Q[i + 1][1]))
    for i, (a, b) in enumerate(zip(Q, Q[1:])):
        if i not in ties:
            ctx.assume(ctx.lt(a[0], b[0]))
    chain = {}                      # points of one vertical line
    for i in range(n):
        chain[i] = chain[i - 1] if (i - 1) in ties else i
    for i, j, k in itertools.combinations(range(n), 3):
        if chain[i] == chain[j] == chain[k]:
            continue                # collinear by construction
        ctx.assume(ctx.ne(area2(Q[i], Q[j], Q[k]), 0))
    pts = [Q[i] for i in order]
    arg = list(pts)
    hull = la.convex_hull(arg)
    ctx.check_true('hull.input_not_reordered', len(arg) == n and all(a is b for a, b in zip(arg, pts)))
    ctx.check_true('hull.subset_of_input', all(any(h is p for p in pts) for h in hull))
    ctx.check_true('hull.no_repetition', all(hull[i] is not hull[j] for i in range(len(hull)) for j in range(i)))
    ctx.check_true('hull.at_least_a_triangle', len(hull) >= 3, 'hull has %d points' % len(hull))
    m = len(hull)
    for i in range(m):
        a, b, c = hull[i], hull[(i + 1) % m], hull[(i + 2) % m]
        ctx.check('hull.counter_clockwise[%d]' % i, _lt0(ctx, -area2(a, b, c)), nonlinear=True)
        for k, p in enumerate(pts):
            if p is a or p is b:
                continue
            ctx.check('hull.edge[%d].point[%d].on_or_left' % (i, k), _le0(ctx, -area2(a, b, p)), nonlinear=True)


def _le0(ctx, x):
    return ctx.sign_free_le(x, 0) if ctx.mode == 'sym' else ctx.le(x, 0)


def _lt0(ctx, x):
    return ctx.sign_free_lt(x, 0) if ctx.mode == 'sym' else ctx.lt(x, 0)


# ------------------------------------------------------------------------------------------------
# voxelisation
# ------------------------------------------------------------------------------------------------
VOX_TOL = Fraction(1, 10 ** 7)        # _voxelize.find_inouts_st / is_point_inside_voxel: tol = 10e-8


def _inside(p, lo, hi, tol):
    """the voxel [lo, hi] inflated by the code's padding; closed below, open above"""
    return all(lo[a] - tol <= p[a] and p[a] < hi[a] + tol for a in range(3))


def _check_filled(ctx, grid, filled, pts, tol):
    ctx.check_true('filled.len', len(filled) == len(grid))
    for k, (lo, hi) in enumerate(grid):
        want = any(_inside(p, lo, hi, tol) for p in pts)
        ctx.check_true('filled[%d]=exists_sample_inside' % k, filled[k] in (0, 1) and (filled[k] == 1) == want,
                       'filled = %r, some sampled point inside: %r' % (filled[k], want))


def _check_cover(ctx, grid, bbox):
    """the union of the voxels contains the bounding box: per axis the voxel intervals start at the box minimum, overlap or
    touch, and end at or beyond the box maximum; the grid is the full product of the three interval families"""
    fam = []
    for a in range(3):
        ivs = []
        for lo, hi in grid:
            if not any(lo[a] == x[0] and hi[a] == x[1] for x in ivs):
                ivs.append((lo[a], hi[a]))
        ivs.sort(key=lambda x: x[0])
        fam.append(ivs)
        ctx.check_eq('grid.axis%d.starts_at_bbox_min' % a, ivs[0][0], bbox[0][a])
        for (l0, h0), (l1, h1) in zip(ivs, ivs[1:]):
            ctx.check('grid.axis%d.no_gap' % a, ctx.le(l1, h0))
        ctx.check('grid.axis%d.reaches_bbox_max' % a, ctx.ge(ivs[-1][1], bbox[1][a]))
    ctx.check_true('grid.full_product', len(grid) == len(fam[0]) * len(fam[1]) * len(fam[2]))


def _trilinear(ctx, corner, ext):
    pts = {}
    for w in range(2):              # layout index v + sv*(u + su*w)
        for u in range(2):
            for v in range(2):
                pts[v + 2 * (u + 2 * w)] = [corner[0] + u * ext[0], corner[1] + v * ext[1], corner[2] + w * ext[2]]
    P = [pts[i] for i in range(8)]
    kv = [ctx.lit(0), ctx.lit(0), ctx.lit(1), ctx.lit(1)]
    return shapes.build_volume(ctx, 1, 1, 1, kv, list(kv), list(kv), P, 2, 2, 2)


@scenario('C20', fns=['voxelize.voxelize', '_voxelize.generate_voxel_grid', '_voxelize.find_inouts_st',
                      '_voxelize.is_point_inside_voxel', 'linalg.frange', 'utilities.evaluate_bounding_box'],
          quick=[dict(grid=[2, 2, 2], samples=2), dict(grid=[2, 3, 2], samples=2), dict(grid=[3, 2, 4], samples=3),
                 # the multi-process path (A4: the pool by its contract), counts that the number of processes does not divide
                 dict(grid=[3, 3, 3], samples=3, num_procs=2), dict(grid=[2, 2, 2], samples=3, num_procs=4)],
          thorough=[dict(grid=[2, 2, 2], samples=2), dict(grid=[2, 3, 2], samples=2), dict(grid=[3, 2, 4], samples=3),
                    dict(grid=[4, 4, 4], samples=4), dict(grid=[5, 3, 8], samples=3),
                    dict(grid=[3, 3, 3], samples=3, num_procs=2), dict(grid=[2, 2, 2], samples=3, num_procs=4),
                    dict(grid=[3, 5, 7], samples=3, num_procs=8)])
def voxel_box(ctx, grid, samples, num_procs=1):
    """requires: trilinear volume = axis-aligned box with symbolic corner and symbolic extents > 1/1000, sampled on a
                 samples^3 lattice; grid sizes as stated
       ensures : the grid has prod(grid) voxels: voxel (i, j, l) (l fastest) = [min + (i, j, l) * step, that + step] with
                 step = extent/(size - 1), so it covers the bounding box; filled[k] = 1 iff some sampled point lies in
                 voxel k (inflated by the code's padding 1e-7, upper faces excluded)"""
    vx = ctx.geomdl('voxelize')
    corner = ctx.point('c', 3)
    ext = ctx.point('e', 3)
    for x in ext:
        ctx.assume(ctx.gt(x, Fraction(1, 1000)))
    vol = _trilinear(ctx, corner, ext)
    vol.sample_size = samples
    pts = [list(p) for p in vol.evalpts]
    ctx.check_true('samples.count', len(pts) == samples ** 3)
    if num_procs > 1:
        from . import c17
        stats = c17._pools(ctx)
        g, filled = vx.voxelize(vol, grid_size=tuple(grid), num_procs=num_procs)
        ctx.check_true('pool.used', stats['pools'] >= 1, 'no process pool was created for num_procs=%d' % num_procs)
    else:
        g, filled = vx.voxelize(vol, grid_size=tuple(grid))
    bbox = [list(corner), [c + x for c, x in zip(corner, ext)]]
    ctx.check_eq_grid('bbox', [list(vol.bbox[0]), list(vol.bbox[1])], bbox)
    ctx.check_true('grid.len', len(g) == grid[0] * grid[1] * grid[2], 'len(grid) = %d' % len(g))
    step = [x / (n - 1) for x, n in zip(ext, grid)]
    k = 0
    for i in range(grid[0]):
        for j in range(grid[1]):
            for l in range(grid[2]):
                lo = [corner[0] + i * step[0], corner[1] + j * step[1], corner[2] + l * step[2]]
                ctx.check_eq_vec('grid[%d].min' % k, g[k][0], lo)
                ctx.check_eq_vec('grid[%d].max' % k, g[k][1], [a + b for a, b in zip(lo, step)])
                k += 1
    _check_cover(ctx, g, bbox)
    _check_filled(ctx, g, filled, pts, VOX_TOL)


def _curved_volume(ctx):
    """degree (2, 1, 1) volume with 3 x 2 x 2 concrete control points (bent in x-y, sheared in z)"""
    pts = {}
    for w in range(2):
        for u in range(3):
            for v in range(2):
                x = Fraction(3 * u, 2) + Fraction(v, 4)
                y = 2 * v + Fraction(u * (2 - u), 1) + Fraction(w, 3)
                z = 3 * w + Fraction(u, 5)
                pts[v + 2 * (u + 3 * w)] = [ctx.lit(x), ctx.lit(y), ctx.lit(z)]
    P = [pts[i] for i in range(12)]
    one = [ctx.lit(0), ctx.lit(0), ctx.lit(1), ctx.lit(1)]
    two = [ctx.lit(0)] * 3 + [ctx.lit(1)] * 3
    return shapes.build_volume(ctx, 2, 1, 1, two, list(one), list(one), P, 3, 2, 2), P


@scenario('C20', fns=['voxelize.voxelize', '_voxelize.generate_voxel_grid', '_voxelize.find_inouts_st',
                      '_voxelize.is_point_inside_voxel', 'linalg.frange'],
          quick=[dict(grid=[2, 2, 2], samples=3, cubes=False), dict(grid=[3, 3, 3], samples=4, cubes=False),
                 dict(grid=[3, 2, 4], samples=3, cubes=True), dict(grid=[4, 3, 2], samples=5, cubes=False)],
          thorough=[dict(grid=[a, b, c], samples=s, cubes=q) for a, b, c, s, q in
                    ((2, 2, 2, 3, False), (3, 3, 3, 4, False), (3, 2, 4, 3, True), (4, 3, 2, 5, False), (5, 5, 5, 6, False),
                     (8, 8, 8, 5, False), (6, 7, 8, 4, True), (2, 8, 3, 7, False))])
def voxel_concrete(ctx, grid, samples, cubes):
    """requires: the stated concrete curved volume, sampled with samples^3 points; grid sizes as stated; cuboid voxels or
                 cubes (use_cubes)
       ensures : the voxels cover the bounding box of the volume (for cuboids: exactly prod(grid) voxels);
                 filled[k] = 1 iff some sampled point lies in voxel k (with the code's padding)"""
    vx = ctx.geomdl('voxelize')
    vol, P = _curved_volume(ctx)
    vol.sample_size = samples
    pts = [list(p) for p in vol.evalpts]
    ctx.check_true('samples.count', len(pts) == samples ** 3)
    g, filled = vx.voxelize(vol, grid_size=tuple(grid), use_cubes=cubes)
    lo = [min(p[a] for p in P) for a in range(3)]
    hi = [max(p[a] for p in P) for a in range(3)]
    ctx.check_eq_grid('bbox', [list(vol.bbox[0]), list(vol.bbox[1])], [lo, hi])
    if not cubes:
        ctx.check_true('grid.len', len(g) == grid[0] * grid[1] * grid[2], 'len(grid) = %d' % len(g))
    _check_cover(ctx, g, [lo, hi])
    ctx.check_true('samples.all_in_some_voxel', all(any(_inside(p, a, b, VOX_TOL) for a, b in g) for p in pts))
    _check_filled(ctx, g, filled, pts, VOX_TOL)
    ctx.check_true('filled.some', any(f == 1 for f in filled))


@scenario('C20', fns=['voxelize.voxelize', '_voxelize.generate_voxel_grid', '_voxelize.find_inouts_st',
                      '_voxelize.is_point_inside_voxel', 'linalg.frange'],
          quick=[dict(grid=[3, 2, 2], samples=3, cubes=False, axis=2), dict(grid=[3, 2, 2], samples=3, cubes=True, axis=2),
                 dict(grid=[2, 3, 2], samples=2, cubes=True, axis=0)])
def voxel_flat(ctx, grid, samples, cubes, axis):
    """requires: a bilinear patch lying in a coordinate plane (its bounding box is flat along `axis`), sampled on a
                 samples^2 lattice; cuboid voxels or cubes
       ensures : voxelize returns; the voxels cover the bounding box; filled[k] = 1 iff some sampled point lies in voxel k"""
    vx = ctx.geomdl('voxelize')
    a0, a1 = [a for a in range(3) if a != axis]
    h = ctx.lit(Fraction(1, 2))
    P = []
    for u in range(2):
        for v in range(2):
            pt = [h, h, h]
            pt[a0] = ctx.lit(Fraction(3 * u, 1))
            pt[a1] = ctx.lit(Fraction(2 * v, 1))
            P.append(pt)
    kv = [ctx.lit(0), ctx.lit(0), ctx.lit(1), ctx.lit(1)]
    srf = shapes.build_surface(ctx, 1, 1, kv, list(kv), P, 2, 2)
    srf.sample_size = samples
    pts = [list(p) for p in srf.evalpts]
    g, filled = vx.voxelize(srf, grid_size=tuple(grid), use_cubes=cubes)
    lo = [min(p[a] for p in P) for a in range(3)]
    hi = [max(p[a] for p in P) for a in range(3)]
    _check_cover(ctx, g, [lo, hi])
    ctx.check_true('samples.all_in_some_voxel', all(any(_inside(p, a, b, VOX_TOL) for a, b in g) for p in pts))
    _check_filled(ctx, g, filled, pts, VOX_TOL)
    ctx.check_true('filled.some', any(f == 1 for f in filled))


@scenario('C20', fns=['voxelize.voxelize', '_voxelize.generate_voxel_grid', '_voxelize.find_inouts_st', 'multi.AbstractContainer.evalpts'],
          quick=[dict(grid=[3, 3, 3], samples=2, count=2), dict(grid=[3, 4, 3], samples=2, count=3)])
def voxel_container(ctx, grid, samples, count):
    """requires: a container of `count` axis-aligned boxes (trilinear volumes) whose bounding boxes overlap
       ensures : the result is the concatenation, shape by shape, of each shape's own grid (covering ITS bounding box) and
                 flags: a voxel of shape k is filled exactly when a sampled point OF SHAPE k lies in it"""
    vx = ctx.geomdl('voxelize')
    multi = ctx.geomdl('multi')
    vols, boxes = [], []
    for k in range(count):
        # the corner of every later box lies strictly inside an interior voxel of the boxes before it
        corner = [ctx.lit(Fraction(6 * k, 5)), ctx.lit(Fraction(3 * k, 5)), ctx.lit(Fraction(4 * k, 5))]
        ext = [ctx.lit(Fraction(2 + k, 1)), ctx.lit(1), ctx.lit(Fraction(3, 2))]
        v = _trilinear(ctx, corner, ext)
        v.sample_size = samples
        vols.append(v)
        boxes.append([list(corner), [c + e for c, e in zip(corner, ext)]])
    own = [[list(p) for p in v.evalpts] for v in vols]         # each shape's sampled points, read before the call
    cont = multi.VolumeContainer(*vols)
    g, filled = vx.voxelize(cont, grid_size=tuple(grid))
    per = grid[0] * grid[1] * grid[2]
    ctx.check_true('grid.len', len(g) == per * count and len(filled) == per * count, 'len(grid) = %d' % len(g))
    for k, v in enumerate(list(cont)):
        gk, fk = g[k * per:(k + 1) * per], filled[k * per:(k + 1) * per]
        pts = own[k]
        _check_cover(ctx, gk, boxes[k])
        for j, (lo, hi) in enumerate(gk):
            want = any(_inside(p, lo, hi, VOX_TOL) for p in pts)
            ctx.check_true('shape%d.filled[%d]=exists_own_sample_inside' % (k, j), fk[j] in (0, 1) and (fk[j] == 1) == want,
                           'filled = %r, some sampled point of this shape inside: %r' % (fk[j], want))


# ------------------------------------------------------------------------------------------------
# control points that are active at a parameter
# ------------------------------------------------------------------------------------------------
def _curve_shapes(tier):
    out = []
    pmax, kmax = (3, 2) if tier == 'quick' else (4, 3)
    for p in range(1, pmax + 1):
        for k in range(0, kmax + 1):
            for mult in shapes.compositions(k, p):
                out.append(dict(p=p, mult=list(mult), rational=False))
    out += [dict(p=2, mult=[1], rational=True), dict(p=3, mult=[2, 1], rational=True)]
    return out


@scenario('C20', fns=['operations.find_ctrlpts', '_operations.find_ctrlpts_curve', 'helpers.find_span_linear'],
          quick=lambda: _curve_shapes('quick'), thorough=lambda: _curve_shapes('thorough'))
def find_ctrlpts_curve(ctx, p, mult, rational):
    """requires: valid clamped curve (symbolic knots with the stated interior multiplicities, symbolic control points,
                 positive weights), u anywhere in the domain
       ensures : find_ctrlpts(curve, u) is the list of the p + 1 control points P_{s-p}..P_s of the knot span s containing u
                 (in order): exactly the control points whose basis function is not identically zero on that span; every
                 basis function outside the window vanishes at u and those inside sum to one"""
    U, inner, n = shapes.make_kv(ctx, p, mult)
    u = shapes.param_in(ctx, 'u', U[0], U[-1])
    P = shapes.net(ctx, 'P', n, 2)
    W = shapes.weights(ctx, 'w', n) if rational else None
    crv = shapes.build_curve(ctx, p, U, P, W)
    ops = ctx.geomdl('operations')
    got = ops.find_ctrlpts(crv, u)
    s = spec.span_spec(p, U, n, u)
    ctx.check_true('window.len', len(got) == p + 1)
    for i in range(p + 1):
        ctx.check_eq_vec('window[%d]=P[%d]' % (i, s - p + i), got[i], P[s - p + i])
    # the window is the support set: the basis functions of the returned points form a partition of unity at u and
    # every other basis function is zero there (textbook half-open recursion; the domain end belongs to the last span)
    if not (u >= U[-1]):
        tot = 0
        for i in range(n):
            b = spec.halfopen_basis(i, p, U, u)
            if s - p <= i <= s:
                tot = tot + b
            else:
                ctx.check_eq('outside_window.basis[%d]=0' % i, b, 0)
        ctx.check_eq('window.partition_of_unity', tot, 1)
    row = spec.basis_row(p, U, s, u)
    ctx.check_eq('window.span_anchored_partition_of_unity', _sum(row[i] for i in range(s - p, s + 1)), 1)


def _surface_shapes(tier):
    out = [dict(pu=1, pv=1, mu=[], mv=[1]), dict(pu=2, pv=1, mu=[1], mv=[]), dict(pu=2, pv=2, mu=[1], mv=[1]),
           dict(pu=1, pv=3, mu=[1, 1], mv=[2])]
    if tier == 'thorough':
        out += [dict(pu=3, pv=2, mu=[1, 2], mv=[1, 1]), dict(pu=3, pv=3, mu=[3], mv=[1])]
    return out


@scenario('C20', fns=['operations.find_ctrlpts', '_operations.find_ctrlpts_surface', 'helpers.find_span_linear',
                      'BSpline.Surface.ctrlpts2d'],
          quick=lambda: _surface_shapes('quick'), thorough=lambda: _surface_shapes('thorough'))
def find_ctrlpts_surface(ctx, pu, pv, mu, mv):
    """requires: valid clamped surface, (u, v) anywhere in the domain
       ensures : find_ctrlpts(surface, u, v)[k][l] = P[(su - pu + k), (sv - pv + l)] (layout v fastest) for the spans
                 su, sv of u, v: the (pu+1) x (pv+1) block of control points whose tensor basis functions are active there;
                 omitting v on a surface raises"""
    U, iu, nu = shapes.make_kv(ctx, pu, mu, prefix='a')
    V, iv, nv = shapes.make_kv(ctx, pv, mv, prefix='b')
    u = shapes.param_in(ctx, 'u', U[0], U[-1])
    v = shapes.param_in(ctx, 'v', V[0], V[-1])
    P = shapes.net(ctx, 'P', nu * nv, 3)
    srf = shapes.build_surface(ctx, pu, pv, U, V, P, nu, nv)
    ops = ctx.geomdl('operations')
    exc = ctx.geomdl('exceptions').GeomdlException
    got = ops.find_ctrlpts(srf, u, v)
    a = spec.span_spec(pu, U, nu, u)
    b = spec.span_spec(pv, V, nv, v)
    ctx.check_true('block.shape', len(got) == pu + 1 and all(len(r) == pv + 1 for r in got))
    for k in range(pu + 1):
        for l in range(pv + 1):
            i, j = a - pu + k, b - pv + l
            ctx.check_eq_vec('block[%d][%d]=P[%d,%d]' % (k, l, i, j), got[k][l], P[j + nv * i])
    ctx.check_raises('surface.v_missing_raises', exc, ops.find_ctrlpts, srf, u)
    ctx.check_raises('not_a_shape_raises', exc, ops.find_ctrlpts, [1, 2, 3], u)
