"""C20 Planar predicates and spatial queries (bounded tier)."""
import itertools
from fractions import Fraction

from .api import scenario
from . import shapes, spec, assumptions

assumptions.PROPS['C20'] = {'level': 'other', 'assume': ['A1', 'A2', 'A4', 'A5', 'A6']}

RAY_TOL = Fraction(1, 2 ** 44)        # ray.intersect default: (1 << 8) * sys.float_info.epsilon = 2**-44


def _sum(it):
    t = 0
    for x in it:
        t = t + x
    return t


def cross3(a, b):
    return [a[1] * b[2] - a[2] * b[1], a[2] * b[0] - a[0] * b[2], a[0] * b[1] - a[1] * b[0]]


def dot(a, b):
    return _sum(x * y for x, y in zip(a, b))


def embed(v, dim):
    return list(v) + [0] * (3 - dim)


def _far(ctx, c, tol):
    return ctx.any(ctx.ge(c, tol), ctx.le(c, -tol))


def _rays(ctx, P1, D1, P2, D2):
    ray = ctx.geomdl('ray')
    r1 = ray.Ray(list(P1), [p + d for p, d in zip(P1, D1)])
    r2 = ray.Ray(list(P2), [p + d for p, d in zip(P2, D2)])
    return ray, r1, r2


@scenario('C20', fns=['ray.intersect', 'ray._intersect2d', 'ray._intersect3d', 'ray.Ray.eval', 'ray.Ray.d', 'linalg.vector_is_zero'],
          quick=[dict(dim=2, big=2), dict(dim=3, big=0), dict(dim=3, big=1), dict(dim=3, big=2)])
def ray_crossing(ctx, dim, big):
    """requires: two lines through a common point X: ray_k starts at X - s_k d_k with direction d_k; the directions are
                 not parallel: component `big` of d1 x d2 is at least the tolerance of the code in absolute value
       ensures : status INTERSECT, the parameters are the unique solution (t1, t2) = (s1, s2) and both rays evaluate to X"""
    X = ctx.point('X', dim)
    d1, d2 = ctx.point('d', dim), ctx.point('e', dim)
    s1, s2 = ctx.num('s1'), ctx.num('s2')
    n = cross3(embed(d1, dim), embed(d2, dim))
    ctx.assume(_far(ctx, n[big], RAY_TOL))
    P1 = [x - s1 * d for x, d in zip(X, d1)]
    P2 = [x - s2 * d for x, d in zip(X, d2)]
    ray, r1, r2 = _rays(ctx, P1, d1, P2, d2)
    t1, t2, st = ray.intersect(r1, r2, tol=ctx.lit(RAY_TOL))
    ctx.check_true('status=INTERSECT', st == ray.RayIntersection.INTERSECT, 'status = %r' % (st,))
    ctx.check_eq('t1.unique_solution', t1, s1)
    ctx.check_eq('t2.unique_solution', t2, s2)
    ctx.check_eq_vec('ray1.eval(t1)=X', r1.eval(t1), X)
    ctx.check_eq_vec('ray2.eval(t2)=X', r2.eval(t2), X)


@scenario('C20', fns=['ray.intersect', 'ray._intersect2d', 'ray._intersect3d', 'linalg.vector_is_zero'],
          quick=[dict(dim=d, case=c) for d in (2, 3) for c in ('parallel', 'coincident')])
def ray_parallel(ctx, dim, case):
    """requires: d2 = k d1 (k any real, d1 any vector); parallel: ray 2 starts anywhere; coincident: ray 2 starts on line 1
       ensures : status COLINEAR (the code's name for parallel-or-coincident)"""
    P1, d1 = ctx.point('P', dim), ctx.point('d', dim)
    k = ctx.num('k')
    d2 = [k * x for x in d1]
    if case == 'coincident':
        m = ctx.num('m')
        P2 = [p + m * x for p, x in zip(P1, d1)]
    else:
        P2 = ctx.point('Q', dim)
    ray, r1, r2 = _rays(ctx, P1, d1, P2, d2)
    t1, t2, st = ray.intersect(r1, r2, tol=ctx.lit(RAY_TOL))
    ctx.check_true('status=COLINEAR', st == ray.RayIntersection.COLINEAR, 'status = %r' % (st,))


@scenario('C20', fns=['ray.intersect', 'ray._intersect3d', 'ray.Ray.eval', 'linalg.point_distance', 'linalg.vector_is_zero'],
          quick=[dict(big=0, e=[1, 2, -1]), dict(big=1, e=[0, 1, 3]), dict(big=2, e=[2, -1, 0])])
def ray_skew(ctx, big, e):
    """requires: 3-D lines with n = d1 x d2, component `big` of n at least the tolerance in absolute value; line 2 passes
                 through X + h n where X is on line 1, and the distance |h| |n| of the lines is at least the tolerance
       ensures : status SKEW"""
    X = ctx.point('X', 3)
    d1 = ctx.point('d', 3)
    d2 = ctx.point('e', 3) if e is None else [ctx.lit(c) for c in e]
    s1, s2, h = ctx.num('s1'), ctx.num('s2'), ctx.num('h')
    n = cross3(d1, d2)
    ctx.assume(_far(ctx, n[big], RAY_TOL))
    ctx.assume(ctx.ge(h * h * dot(n, n), RAY_TOL * RAY_TOL))
    P1 = [x - s1 * d for x, d in zip(X, d1)]
    P2 = [x + h * c - s2 * d for x, c, d in zip(X, n, d2)]
    ray, r1, r2 = _rays(ctx, P1, d1, P2, d2)
    t1, t2, st = ray.intersect(r1, r2, tol=ctx.lit(RAY_TOL))
    ctx.check_true('status=SKEW', st == ray.RayIntersection.SKEW, 'status = %r' % (st,))


@scenario('C20', fns=['ray.intersect', 'ray.Ray.__init__'], quick=[dict()])
def ray_arguments(ctx):
    """ensures: rays of different dimension, non-Ray arguments and rays of dimension 4 are rejected"""
    ray = ctx.geomdl('ray')
    a = ray.Ray([ctx.num('x'), ctx.num('y')], [ctx.lit(1), ctx.lit(2)])
    b = ray.Ray([ctx.lit(0), ctx.lit(0), ctx.lit(0)], [ctx.lit(1), ctx.lit(2), ctx.num('z')])
    ctx.check_raises('dimension_mismatch', ValueError, ray.intersect, a, b)
    ctx.check_raises('not_a_ray', TypeError, ray.intersect, a, [0, 1])
    c = ray.Ray([ctx.lit(0)] * 4, [ctx.lit(1)] * 4)
    ctx.check_raises('dimension_4', NotImplementedError, ray.intersect, c, c)
    ctx.check_raises('points_of_different_size', ValueError, ray.Ray, [0, 0], [1, 1, 1])
    ctx.check_eq_vec('eval(0)=p1', a.eval(0), [ctx.num('x'), ctx.num('y')])
    ctx.check_eq_vec('eval(1)=p2', a.eval(1), [1, 2])
